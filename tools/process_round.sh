#!/bin/bash
# tools/process_round.sh <PROP> <N>  - one step for a sub-agent's change in /tmp/wt-<PROP>:
# independent confirmation (verify_seeded.sh), then the property's quick check against it (try_mutant.sh).
# Prints one line per step; nothing is stored (see tools/store_seeded.py).
P=$1; N=$2; W=${WTBASE:-/tmp/wt}-$P
cd /verif
V=$(SKIP37=1 tools/verify_seeded.sh $P $N 2>&1 | tail -1)
(cd $W && git checkout -q -- src)
echo "VERIFY $V"
C=$(tools/try_mutant.sh $W/MUTANT$N.diff ${CHECKS:-$P} 2>&1 | grep '^==' | tr '\n' ';')
echo "CHECK  $P/$N $C"
