#!/bin/bash
# tools/process_all.sh <PROP>...  - process_round for changes 1 and 2 of each property, one property per worker
cd /verif
printf '%s\n' "$@" | xargs -P ${JOBS:-8} -I{} bash -c 'tools/process_round.sh {} 1 > /tmp/r9-{}-1.log 2>&1; tools/process_round.sh {} 2 > /tmp/r9-{}-2.log 2>&1'
