#!/usr/bin/env python3
"""tools/store_seeded.py <PROP> <N> <id> <caught_by,..> <first_try:0|1> <needs> [strengthening]
Copies a confirmed sub-agent change from /tmp/wt-<PROP> into seeded/<id>/ with its meta.json."""
import json, os, shutil, sys, glob
P, N, ID, caught, first, needs = sys.argv[1:7]
strength = sys.argv[7] if len(sys.argv) > 7 else ""
W = f"/tmp/wt-{P}"; D = f"/verif/seeded/{ID}"
os.makedirs(D, exist_ok=True)
shutil.copy(f"{W}/MUTANT{N}.diff", f"{D}/patch.diff")
demo = [f for f in glob.glob(f"{W}/demo{N}.*")]
for f in demo: shutil.copy(f, D)
if os.path.exists(f"{W}/NOTES.md"): shutil.copy(f"{W}/NOTES.md", f"{D}/NOTES-agent.md")
meta = {"id": ID, "property": P, "source": "round 9 sub-agent (given only the property text and a scratch worktree)",
        "patch": "patch.diff", "demonstration": [os.path.basename(f) for f in demo],
        "needs_to_manifest": needs,
        "what_i_ran": [f"tools/process_round.sh {P} {N}  -> verify_seeded (all 120 tests with PATH=/venv/bin pass with the change; demo exits 1 with it, 0 without) and try_mutant (quick tier against a scratch worktree of /repo HEAD with the patch applied)"],
        "caught_by": caught.split(","), "caught_at_first_try": first == "1", "strengthening": strength}
json.dump(meta, open(f"{D}/meta.json", "w"), indent=1)
print("stored", D)
