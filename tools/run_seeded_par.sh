#!/bin/bash
# tools/run_seeded_par.sh [ids...]  - run_seeded.sh for many stored changes, ${JOBS:-6} at a time (each in its own scratch worktree)
cd /verif
IDS="$@"; [ -z "$IDS" ] && IDS=$(ls seeded)
printf '%s\n' $IDS | xargs -P ${JOBS:-6} -I{} tools/run_seeded.sh {}
