#!/bin/bash
# tools/try_mutant.sh <patch.diff> <PROP> [PROP...]   - runs the quick checks against a scratch worktree of
# /repo HEAD with the patch applied (VERIF_REPO), evidence/replays redirected to a scratch dir; /repo is untouched.
set -u
DIFF=$(readlink -f "$1"); shift
WT=$(mktemp -d /tmp/mutwt-XXXXXX); OUT=$(mktemp -d /tmp/mutout-XXXXXX)
rmdir "$WT"
for i in 1 2 3 4 5 6; do git -C /repo worktree add -q --detach "$WT" HEAD 2>/dev/null && break; sleep $((RANDOM % 3 + 1)); done
[ -d "$WT/src" ] || { echo "WORKTREE FAILED"; exit 3; }
if ! git -C "$WT" apply "$DIFF"; then echo "PATCH DOES NOT APPLY"; git -C /repo worktree remove --force "$WT"; rm -rf "$OUT"; exit 3; fi
cd /verif
for P in "$@"; do
  VERIF_REPO="$WT" VERIF_OUT="$OUT" ./check "$P" --tier "${TIER:-quick}" > "$OUT/$P.log" 2>&1; rc=$?
  grep -q "tier=" "$OUT/$P.log" || echo "!! $P CHECK DID NOT PRODUCE A SUMMARY LINE"
  echo "== $P exit=$rc  $(grep -c '^VIOLATION' "$OUT/$P.log") violation line(s): $(grep '^VIOLATION' "$OUT/$P.log" | sed 's/.*replay=.*replays\///' | cut -c1-90 | tr '\n' ' ')"
  [ -n "${SHOW:-}" ] && grep -v '^VIOLATION' "$OUT/$P.log" | head -${SHOW}
done
git -C /repo worktree remove --force "$WT"; rm -rf "$OUT"
