#!/bin/bash
# tools/run_seeded.sh [ids...]  - re-runs the quick check(s) named in each seeded/<id>/meta.json against a scratch
# worktree with that patch applied; prints CAUGHT / MISSED per seeded change.  /repo is never touched.
cd /verif
IDS="$@"; [ -z "$IDS" ] && IDS=$(ls seeded)
for id in $IDS; do
  if grep -q '"neutralised_by_fix"' seeded/$id/meta.json; then echo "NEUTRAL $id (equivalent on the repaired tree, see meta.json)"; continue; fi
  props=$(python3 -c "import json;print(' '.join(json.load(open('seeded/$id/meta.json'))['caught_by'][:1]))")
  out=$(tools/try_mutant.sh seeded/$id/patch.diff $props 2>&1 | grep '^==')
  if echo "$out" | grep -q "exit=1"; then echo "CAUGHT $id by $props"; else echo "MISSED $id ($out)"; fi
done
