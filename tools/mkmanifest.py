#!/usr/bin/env python3
"""Regenerates /verif/MANIFEST.json from the table below (keeps it valid at all times)."""
import json, os, sys
HERE = os.path.dirname(os.path.dirname(os.path.abspath(__file__)))
ALL = ["C%02d" % i for i in range(1, 21)]

E2_NOTE = ("Trusted base: the interposed kernel model (fork_exec/waitpid/getpgid/killpg/blocking read; under-approximates Linux: every modelled schedule is a real one), "
           "the reference model written from the docs, CPython. Verdict = held on the executions observed, see evidence for counts of events, interleavings and kernel states.")

CHECKS = {
 "C01": dict(level="exploration", engine="E2 fakekernel (+E1 real processes)", technique="runtime monitoring: history oracle (happens-before + interval disjointness) over recorded spawn/exit/reap events of real cond runs under an interposed process kernel",
             text="Every recorded execution history (spawn/exit/reap events on one logical clock) of real `cond run` invocations over generated DAGs and kernel schedules is checked against the generator's DAG: a task starts only after all executed transitive dependencies exited 0, no interval overlap. Exploration is the right level: the space (graphs x schedules) is unbounded, the oracle is exact per execution.",
             note=E2_NOTE, ref="DESIGN.md §3 C01"),
 "C02": dict(level="exploration", engine="E2 fakekernel", technique="runtime monitoring: exactly-once / conservation oracle over spawn events and status lines vs a reference closure model",
             text="Spawn multiset, 'cached' lines, progress counters and index rows added by each real invocation are compared with a reference plan computed from the generator's DAG and the index rows read independently before the invocation.",
             note=E2_NOTE, ref="DESIGN.md §3 C02"),
 "C03": dict(level="fault_enumeration", engine="E2 fakekernel", technique="runtime monitoring with fault injection: failing subsets (exit codes, signals, launch failures) injected at the process layer, outcome/report/exit-status oracle from a fault model over the DAG",
             text="Failures are injected per task (exit code, signal death, exec/chdir launch failure through CPython's real error-pipe protocol); the oracle derives failed/skipped/ran sets from the DAG and compares spawns, report sections, exit status and the stop-early ordering (no Popen after the first failure line; SIGTERM to the rest).",
             note=E2_NOTE, ref="DESIGN.md §3 C03"),
 "C04": dict(level="exploration", engine="E2 fakekernel", technique="runtime monitoring: sweep-line invariant over exact execution intervals + environment received by each process",
             text="At every spawn instant of every observed execution the set of running task processes is checked against --jobs, exclusivity of non-parallelizable tasks and distinctness/range/presence of COND_SLOT.",
             note=E2_NOTE, ref="DESIGN.md §3 C04"),
 "C09": dict(level="exploration", engine="E2 fakekernel (+E1 soak)", technique="runtime monitoring: deadlock detection at quiescence under an interposed kernel that controls exit batching and SIGCHLD delivery, plus exactly-one-outcome and attribution oracle",
             text="Liveness restated as bounded progress: whenever no task process is running and no SIGCHLD is pending, `cond run` must not be blocked; the interposed kernel detects that state instead of waiting. Each needed task must have exactly one outcome matching the kernel's wait status of its process.",
             note=E2_NOTE + " True liveness under OS-level starvation is out of reach for runtime monitoring.", ref="DESIGN.md §3 C09"),
}

def main():
    checks = []
    for pid in ALL:
        if pid not in CHECKS:
            continue
        c = CHECKS[pid]
        checks.append({
            "property_id": pid,
            "quick_cmd": "./check %s --tier quick" % pid,
            "thorough_cmd": "./check %s --tier thorough" % pid,
            "evidence_file": "evidence/%s.json" % pid,
            "replay_cmd_template": "./check %s --replay {path}" % pid,
            "engine": c["engine"],
            "level_claimed": {"category": c["level"], "text": c["text"], "design_ref": c["ref"]},
            "level_note": c["note"],
            "technique": c["technique"],
        })
    na = [{"property_id": p, "reason": "check not built yet in this session (work in progress; the design in DESIGN.md §3 covers it with runtime monitoring)"} for p in ALL if p not in CHECKS]
    m = {
        "version": 1,
        "setup_cmd": "./setup.sh",
        "hooks": {"guard": "CONDUCTOR_VERIF", "enable": "no source hooks: all instrumentation is injected from /verif (interposed stdlib entry points, audit hooks, sys.monitoring); checks import /repo/src directly", 
                  "baseline_off_cmd": "cd /repo && /venv/bin/python -m pytest -ra -q -p no:cacheprovider --timeout=900 --continue-on-collection-errors", "source_commits": [], "add_only": True},
        "engines": [
            {"name": "E2 fakekernel", "path": "cverif/fakekernel.py", "serves_properties": ["C01", "C02", "C03", "C04", "C09", "C16"], "kind_free_text": "real Conductor + real CPython subprocess lifecycle over an interposed process kernel with scheduler strategies; history recorder"},
        ],
        "checks": checks,
        "not_applicable": na,
        "notes": "Runtime monitoring family. Exit codes: 0 held, 1 violation (VIOLATION line), 2 inconclusive (INCONCLUSIVE line; never on the unchanged tree). VERIF_SEED selects the workload seed.",
    }
    with open(os.path.join(HERE, "MANIFEST.json"), "w") as f:
        json.dump(m, f, indent=1)
    print("MANIFEST: %d checks, %d not_applicable" % (len(checks), len(na)))

if __name__ == "__main__":
    main()
