#!/usr/bin/env python3
"""Regenerates /verif/MANIFEST.json from the table below (keeps it valid at all times)."""
import json, os, sys
HERE = os.path.dirname(os.path.dirname(os.path.abspath(__file__)))
ALL = ["C%02d" % i for i in range(1, 21)]

E2_NOTE = ("Trusted base: the interposed kernel model (fork_exec/waitpid/getpgid/killpg/blocking read; under-approximates Linux: every modelled schedule is a real one), "
           "the reference model written from the docs, CPython. Verdict = held on the executions observed, see evidence for counts of events, interleavings and kernel states.")

CHECKS = {
 "C01": dict(level="exploration", engine="E2 fakekernel (+E1 real processes)", technique="runtime monitoring: history oracle (happens-before + interval disjointness) over recorded spawn/exit/reap events of real cond runs under an interposed process kernel",
             text="Every recorded execution history (spawn/exit/reap events on one logical clock) of real `cond run` invocations over generated DAGs and kernel schedules is checked against the generator's DAG: a task starts only after all executed transitive dependencies exited 0, no interval overlap. Exploration is the right level: the space (graphs x schedules) is unbounded, the oracle is exact per execution.",
             note=E2_NOTE, ref="DESIGN.md §3 C01"),
 "C02": dict(level="exploration", engine="E2 fakekernel", technique="runtime monitoring: exactly-once / conservation oracle over spawn events and status lines vs a reference closure model",
             text="Spawn multiset, 'cached' lines, progress counters and index rows added by each real invocation are compared with a reference plan computed from the generator's DAG and the index rows read independently before the invocation.",
             note=E2_NOTE, ref="DESIGN.md §3 C02"),
 "C03": dict(level="fault_enumeration", engine="E2 fakekernel", technique="runtime monitoring with fault injection: failing subsets (exit codes, signals, launch failures) injected at the process layer, outcome/report/exit-status oracle from a fault model over the DAG",
             text="Failures are injected per task (exit code, signal death, exec/chdir launch failure through CPython's real error-pipe protocol); the oracle derives failed/skipped/ran sets from the DAG and compares spawns, report sections, exit status and the stop-early ordering (no Popen after the first failure line; SIGTERM to the rest).",
             note=E2_NOTE, ref="DESIGN.md §3 C03"),
 "C04": dict(level="exploration", engine="E2 fakekernel", technique="runtime monitoring: sweep-line invariant over exact execution intervals + environment received by each process",
             text="At every spawn instant of every observed execution the set of running task processes is checked against --jobs, exclusivity of non-parallelizable tasks and distinctness/range/presence of COND_SLOT.",
             note=E2_NOTE, ref="DESIGN.md §3 C04"),
 "C09": dict(level="exploration", engine="E2 fakekernel (+E1 soak)", technique="runtime monitoring: deadlock detection at quiescence under an interposed kernel that controls exit batching and SIGCHLD delivery, plus exactly-one-outcome and attribution oracle",
             text="Liveness restated as bounded progress: whenever no task process is running and no SIGCHLD is pending, `cond run` must not be blocked; the interposed kernel detects that state instead of waiting. Each needed task must have exactly one outcome matching the kernel's wait status of its process.",
             note=E2_NOTE + " True liveness under OS-level starvation is out of reach for runtime monitoring.", ref="DESIGN.md §3 C09"),
 "C14": dict(level="exploration", engine="E5 frontend", technique="runtime monitoring: the real loader/validator executed on exhaustively enumerated small digraphs and random multi-file graphs, result compared with an independent colour-DFS reference analysis; CLI sample with spawn/output observation",
             text="All digraphs (self-loops included) on 3 tasks x every dependency-list order x every target (and with an undefined dependency; thorough: all 65 536 four-task edge sets) plus random multi-file graphs with duplicate listings are loaded by the real TaskIndex.load_transitive_closure and the explorer's whole-project validation; a CLI sample checks exit status, ERROR kind and that nothing ran.",
             note="Trusted base: the reference graph analysis (colour DFS, 40 lines), the generator. Exhaustive only inside the stated small scopes; beyond that sampled.", ref="DESIGN.md §3 C14"),
 "C16": dict(level="fault_enumeration", engine="E2 fakekernel + sys.monitoring line-level signal injection", technique="runtime monitoring with fault injection: SIGINT/SIGTERM raised at enumerated main-thread line events of real cond run executions over the interposed kernel; oracle over kernel log (live children vs SIGTERM sent), exit path and index rows",
             text="For 9 scenarios every distinct file:line site of conductor.* (thorough: every line event, plus subprocess.py lines, i.e. inside Popen.__init__ after fork) receives an injected SIGINT/SIGTERM via signal.raise_signal so that the registered handler raises in the executing frame. Oracle: every spawned, still-running child got SIGTERM; exit non-zero through the abort report; no row for a task that had not exited 0.",
             note=E2_NOTE + " One signal per run; signals before register_signal_handlers() are out of scope.", ref="DESIGN.md §3 C16"),
 "C19": dict(level="translation_validation", engine="E5 frontend + E2", technique="runtime differential monitoring: each generated run_experiment_group definition and its documented expansion go through the real loader (and a sample through real execution over the interposed kernel); loaded task sets and event logs must be equal",
             text="Translation validation per definition: group form vs explicit run_experiment*/combine form, both through the real loader; compares identifier, type, ordered deps, args/options (command line and JSON, type-exact), parallelizable, run; rejected iff rejected; a sample of pairs is executed with the same scheduler seed and the event logs compared.",
             note="Trusted base: the expansion writer (from the documentation's usage example). No model of the loader is used.", ref="DESIGN.md §3 C19"),
 "C20": dict(level="exploration", engine="E5 frontend", technique="runtime monitoring: exhaustive bounded string enumeration through the real identifier functions against a hand-written recursive-descent recogniser; round-trip/canonical-form postconditions; injectivity of output paths through the real task types; CLI sample",
             text="Every string over a 13-symbol alphabet up to length 5 (thorough: 6, and 7-9 over a reduced alphabet) is pushed through is_name_valid / from_str (both prefix modes) / from_relative_str and compared with an independent recogniser; accepted strings are round-tripped; output directories of 400+ (identifier, version) pairs must be pairwise distinct and follow the documented layout; ':name' resolution checked through the real loader; `cond where -f` / `cond run --check` samples.",
             note="Trusted base: the recogniser (no `re`), written from the documented grammar. Exhaustive inside the length bound only.", ref="DESIGN.md §3 C20"),
}

def main():
    checks = []
    for pid in ALL:
        if pid not in CHECKS:
            continue
        c = CHECKS[pid]
        checks.append({
            "property_id": pid,
            "quick_cmd": "./check %s --tier quick" % pid,
            "thorough_cmd": "./check %s --tier thorough" % pid,
            "evidence_file": "evidence/%s.json" % pid,
            "replay_cmd_template": "./check %s --replay {path}" % pid,
            "engine": c["engine"],
            "level_claimed": {"category": c["level"], "text": c["text"], "design_ref": c["ref"]},
            "level_note": c["note"],
            "technique": c["technique"],
        })
    na = [{"property_id": p, "reason": "check not built yet in this session (work in progress; the design in DESIGN.md §3 covers it with runtime monitoring)"} for p in ALL if p not in CHECKS]
    m = {
        "version": 1,
        "setup_cmd": "./setup.sh",
        "hooks": {"guard": "CONDUCTOR_VERIF", "enable": "no source hooks: all instrumentation is injected from /verif (interposed stdlib entry points, audit hooks, sys.monitoring); checks import /repo/src directly", 
                  "baseline_off_cmd": "cd /repo && /venv/bin/python -m pytest -ra -q -p no:cacheprovider --timeout=900 --continue-on-collection-errors", "source_commits": [], "add_only": True},
        "engines": [
            {"name": "E2 fakekernel", "path": "cverif/fakekernel.py", "serves_properties": ["C01", "C02", "C03", "C04", "C09", "C16", "C19"], "kind_free_text": "real Conductor + real CPython subprocess lifecycle over an interposed process kernel with scheduler strategies; history recorder"},
            {"name": "E5 frontend", "path": "cverif/checks/c14.py", "serves_properties": ["C14", "C15", "C19", "C20"], "kind_free_text": "in-process input-space workloads over the real parser/validator/identifier code with reference-model oracles"},
            {"name": "cli runner", "path": "cverif/cli.py", "serves_properties": ["C05", "C06", "C07", "C08", "C10", "C11", "C12", "C13", "C14", "C15", "C17", "C18", "C20"], "kind_free_text": "runs the real CLI (forked from a warmed interpreter, or a separate python -m conductor) with optional audit-hook trace, clock script, crash-at-line"},
        ],
        "checks": checks,
        "not_applicable": na,
        "notes": "Runtime monitoring family. Exit codes: 0 held, 1 violation (VIOLATION line), 2 inconclusive (INCONCLUSIVE line; never on the unchanged tree). VERIF_SEED selects the workload seed.",
    }
    with open(os.path.join(HERE, "MANIFEST.json"), "w") as f:
        json.dump(m, f, indent=1)
    print("MANIFEST: %d checks, %d not_applicable" % (len(checks), len(na)))

if __name__ == "__main__":
    main()
