#!/usr/bin/env python3
"""Regenerates /verif/MANIFEST.json from the table below (keeps it valid at all times)."""
import json, os, sys
HERE = os.path.dirname(os.path.dirname(os.path.abspath(__file__)))
ALL = ["C%02d" % i for i in range(1, 21)]

E2_NOTE = ("Trusted base: the interposed kernel model (fork_exec/waitpid/getpgid/killpg/blocking read; under-approximates Linux: every modelled schedule is a real one), "
           "the reference model written from the docs, CPython. Verdict = held on the executions observed, see evidence for counts of events, interleavings and kernel states.")

E1_NOTE = ("Trusted base: the probe (task-side recorder), the fast CLI runner (fork of a warmed interpreter calling conductor.__main__.main(); a sample runs as a separate `python -m conductor` process), the reference model named in the text. Real kernel, real processes, real SQLite/tar/git. Verdict = held on the executions observed.")

CHECKS = {
 "C01": dict(level="exploration", engine="E2 fakekernel (+E1 real processes)", technique="runtime monitoring: history oracle (happens-before + interval disjointness) over recorded spawn/exit/reap events of real cond runs under an interposed process kernel",
             text="Every recorded execution history (spawn/exit/reap events on one logical clock) of real `cond run` invocations over generated DAGs and kernel schedules is checked against the generator's DAG: a task starts only after all executed transitive dependencies exited 0, no interval overlap. Exploration is the right level: the space (graphs x schedules) is unbounded, the oracle is exact per execution.",
             note=E2_NOTE, ref="DESIGN.md §3 C01"),
 "C02": dict(level="exploration", engine="E2 fakekernel", technique="runtime monitoring: exactly-once / conservation oracle over spawn events and status lines vs a reference closure model",
             text="Spawn multiset, 'cached' lines, progress counters and index rows added by each real invocation are compared with a reference plan computed from the generator's DAG and the index rows read independently before the invocation.",
             note=E2_NOTE, ref="DESIGN.md §3 C02"),
 "C03": dict(level="fault_enumeration", engine="E2 fakekernel", technique="runtime monitoring with fault injection: failing subsets (exit codes, signals, launch failures) injected at the process layer, outcome/report/exit-status oracle from a fault model over the DAG",
             text="Failures are injected per task (exit code, signal death, exec/chdir launch failure through CPython's real error-pipe protocol); the oracle derives failed/skipped/ran sets from the DAG and compares spawns, report sections, exit status and the stop-early ordering (no Popen after the first failure line; SIGTERM to the rest).",
             note=E2_NOTE, ref="DESIGN.md §3 C03"),
 "C04": dict(level="exploration", engine="E2 fakekernel", technique="runtime monitoring: sweep-line invariant over exact execution intervals + environment received by each process",
             text="At every spawn instant of every observed execution the set of running task processes is checked against --jobs, exclusivity of non-parallelizable tasks and distinctness/range/presence of COND_SLOT.",
             note=E2_NOTE, ref="DESIGN.md §3 C04"),
 "C09": dict(level="exploration", engine="E2 fakekernel (+E1 soak)", technique="runtime monitoring: deadlock detection at quiescence under an interposed kernel that controls exit batching and SIGCHLD delivery, plus exactly-one-outcome and attribution oracle",
             text="Liveness restated as bounded progress: whenever no task process is running and no SIGCHLD is pending, `cond run` must not be blocked; the interposed kernel detects that state instead of waiting. Each needed task must have exactly one outcome matching the kernel's wait status of its process.",
             note=E2_NOTE + " True liveness under OS-level starvation is out of reach for runtime monitoring.", ref="DESIGN.md §3 C09"),
 "C14": dict(level="exploration", engine="E5 frontend", technique="runtime monitoring: the real loader/validator executed on exhaustively enumerated small digraphs and random multi-file graphs, result compared with an independent colour-DFS reference analysis; CLI sample with spawn/output observation",
             text="All digraphs (self-loops included) on 3 tasks x every dependency-list order x every target (and with an undefined dependency; thorough: all 65 536 four-task edge sets) plus random multi-file graphs with duplicate listings are loaded by the real TaskIndex.load_transitive_closure and the explorer's whole-project validation; a CLI sample checks exit status, ERROR kind and that nothing ran.",
             note="Trusted base: the reference graph analysis (colour DFS, 40 lines), the generator. Exhaustive only inside the stated small scopes; beyond that sampled.", ref="DESIGN.md §3 C14"),
 "C16": dict(level="fault_enumeration", engine="E2 fakekernel + sys.monitoring line-level signal injection", technique="runtime monitoring with fault injection: SIGINT/SIGTERM raised at enumerated main-thread line events of real cond run executions over the interposed kernel; oracle over kernel log (live children vs SIGTERM sent), exit path and index rows",
             text="For 9 scenarios every distinct file:line site of conductor.* (thorough: every line event, plus subprocess.py lines, i.e. inside Popen.__init__ after fork) receives an injected SIGINT/SIGTERM via signal.raise_signal so that the registered handler raises in the executing frame. Oracle: every spawned, still-running child got SIGTERM; exit non-zero through the abort report; no row for a task that had not exited 0.",
             note=E2_NOTE + " One or two signals per run (a second signal at every line event after the first); signals before register_signal_handlers() are out of scope.", ref="DESIGN.md §3 C16"),
 "C19": dict(level="translation_validation", engine="E5 frontend + E2", technique="runtime differential monitoring: each generated run_experiment_group definition and its documented expansion go through the real loader (and a sample through real execution over the interposed kernel); loaded task sets and event logs must be equal",
             text="Translation validation per definition: group form vs explicit run_experiment*/combine form, both through the real loader; compares identifier, type, ordered deps, args/options (command line and JSON, type-exact), parallelizable, run; rejected iff rejected; a sample of pairs is executed with the same scheduler seed and the event logs compared.",
             note="Trusted base: the expansion writer (from the documentation's usage example). No model of the loader is used.", ref="DESIGN.md §3 C19"),
 "C20": dict(level="exploration", engine="E5 frontend", technique="runtime monitoring: exhaustive bounded string enumeration through the real identifier functions against a hand-written recursive-descent recogniser; round-trip/canonical-form postconditions; injectivity of output paths through the real task types; CLI sample",
             text="Every string over a 13-symbol alphabet up to length 5 (thorough: 6, and 7-9 over a reduced alphabet) is pushed through is_name_valid / from_str (both prefix modes) / from_relative_str and compared with an independent recogniser; accepted strings are round-tripped; output directories of 400+ (identifier, version) pairs must be pairwise distinct and follow the documented layout; ':name' resolution checked through the real loader; `cond where -f` / `cond run --check` samples.",
             note="Trusted base: the recogniser (no `re`), written from the documented grammar. Exhaustive inside the length bound only.", ref="DESIGN.md §3 C20"),
 "C05": dict(level="exploration", engine="E4 statecheck (real git, real CLI, probe)", technique="runtime monitoring of real CLI histories against a reference selection model over the generator's commit DAG (ancestor sets, distance, tie-break), observed through `cond where`, probe start events and COND_DEPS",
             text="Real git repositories are built from generated commit DAGs (branches, --no-ff merges, detached HEAD, lightweight/annotated tags); versions are recorded by real runs at checkouts and by row insertion (null/foreign commits, ties). Each observation (where / run / --again / --at-least C / --this-commit / conflicting flags) is compared with the documented rule evaluated on the generator's DAG.",
             note=E1_NOTE, ref="DESIGN.md §3 C05"),
 "C06": dict(level="fault_enumeration", engine="E3 crashpoint (sys.monitoring LINE -> os._exit) + real SIGKILL", technique="runtime monitoring with crash injection: Conductor is killed at enumerated main-thread line events (and by real SIGKILL at random delays); a fresh sqlite connection and the file system are audited against the disk invariant",
             text="For run (sequential/-j3; no git/clean/dirty), restore, archive and gc: every selected line event of conductor.* (thorough: every line event) is a crash point; after the crash and after orphaned tasks ended, every recorded row must have its directory, completion marker, complete logs, args/options records, an execution that exited 0 and HEAD's commit/dirty flag.",
             note=E1_NOTE + " Process death only; SQLite's atomic commit is trusted.", ref="DESIGN.md §3 C06"),
 "C07": dict(level="exploration", engine="E1 procmon (real processes, probe)", technique="runtime monitoring at the process boundary: the probe inside every task reports argv/cwd/COND_* and conductor.lib results; oracle from the generator's definitions and the directories dependencies really used",
             text="Random DAGs in nested packages with typed args/options run through real `cond run` histories; each started task's cwd, argv, COND_NAME, COND_OUT, COND_DEPS and the values conductor.lib returns inside the task are compared with the contract; all dependents of a task must receive the same directory, the one the dependency itself wrote to (or its selected cached version).",
             note=E1_NOTE, ref="DESIGN.md §3 C07"),
 "C08": dict(level="exploration", engine="E4 statecheck + clock scripts + audit hook", technique="runtime monitoring of command histories under scripted clocks: harness listings, the probe's listing of COND_OUT at start, Merkle hashes of recorded versions before/after, and an audit-hook trace of Conductor's own file-system mutations",
             text="Histories of run (ok / failing / aborted by SIGINT), --again, archive, restore of foreign archives, gc under real back-to-back, frozen, backwards and jumping clocks. Every experiment execution must get a version id above the recorded maximum and a directory that did not exist and is empty; no command but clean may touch a recorded version directory (hash comparison + audit events).",
             note=E1_NOTE + " Only the `time` object seen by conductor.execution.version_index is replaced, and only in scripted-clock cases.", ref="DESIGN.md §3 C08"),
 "C10": dict(level="exploration", engine="E1 procmon (real processes, probe)", technique="runtime monitoring with byte-exact comparison: scripted byte streams written by real task processes vs stdout.log/stderr.log, Conductor's own stdout/stderr and the JSON records; process-state stall detector (every thread asleep in an untimed call, a task blocked in write on its pipe) decides deadlocks without a clock",
             text="Tasks write scripted chunks (sizes around pipe/buffer boundaries up to 1 MiB, thorough 8 MiB; all byte values, invalid UTF-8, NUL, CR/LF, ESC; interleaved streams; early close; lingering grandchild) in sequential (teed), parallel-slot and non-parallelizable-under--j modes; logs must equal the bytes written, forwarded output must carry the same bytes, args.json/options.json must decode type-exactly and exist iff non-empty.",
             note=E1_NOTE, ref="DESIGN.md §3 C10"),
 "C11": dict(level="exploration", engine="E4 statecheck", technique="runtime monitoring of archive/restore round trips: selection model over the generator's DAG vs rows read independently and Merkle hashes of every version directory",
             text="Real histories produce several versions per experiment in nested packages (rich trees: empty dirs, 0-byte and binary files, exec bits, unicode names, symlinks incl. dangling; git commit/dirty flags); archive [task] [--latest] [-o ...] then restore into the cleaned project or a fresh clone must recreate exactly the selected rows and byte-identical trees and leave the source untouched.",
             note=E1_NOTE, ref="DESIGN.md §3 C11"),
 "C12": dict(level="fault_enumeration", engine="E4 statecheck + E3 crashpoint", technique="runtime monitoring with fault injection: corruptions of real archives (alone and composed with the leftovers of a killed restore) and process death at enumerated line events of `cond restore`; rows and version-directory hashes before vs after",
             text="Faults: index member removed, listed directory removed, truncation, byte flips, an already recorded row first/middle/last among new ones, pre-existing unrecorded destination, stale staging directory, non-archive input; crash at line events of cli/restore.py, version_index.py, shutil.py (thorough: all) and real SIGKILLs. A restore that does not report success must leave the recorded versions and every existing version directory unchanged; a successful one must have every row and directory.",
             note=E1_NOTE + " One archive fault at a time, alone or on top of the staging leftovers of a killed earlier restore; unrecorded leftovers of a failed restore are don't-care.", ref="DESIGN.md §3 C12"),
 "C13": dict(level="exploration", engine="E4 statecheck", technique="runtime monitoring of gc on hostile trees: full-tree snapshots before/after vs a delete-set model written from the statement",
             text="cond-out trees from real histories plus manual additions (look-alikes inside task outputs, files named like task dirs, recorded timestamps under other packages, symlinks inside/outside cond-out, look-alikes in the project root); gc / gc -n / gc -v must delete exactly the model's set, dry-run nothing and list that set, and never change anything outside cond-out.",
             note=E1_NOTE, ref="DESIGN.md §3 C13"),
 "C15": dict(level="exploration", engine="E5 frontend + CLI", technique="runtime monitoring of the real loader on grammar-generated COND sources against a reference validator written from the documentation; CLI sample observing exit status, ERROR diagnostics, spawns and created outputs",
             text="Systematic: each constructor x each parameter x {omitted, right type, 30+ wrong/boundary values}, names, dependency strings, duplicates, positional calls, Python failures in COND / included / dependency COND files, the include() matrix; plus random compositions. Accept iff the reference validator accepts; rejections must be ConductorErrors with file context; CLI: exit 1, ERROR: naming the file, no traceback, nothing executed, --check creates nothing.",
             note="Trusted base: the reference validator (60 lines, from website/docs). Excluded: SystemExit/KeyboardInterrupt raised by COND code, environment(), values whose str() raises.", ref="DESIGN.md §3 C15"),
 "C17": dict(level="exploration", engine="E4 statecheck", technique="runtime metamorphic monitoring: the same command on the same restored project state from different working directories; the run from the project root is the reference",
             text="21 command/flag combinations x 7 working directories (root, package dirs, directory without COND, cond-out, inside a task output) x project states; exit status, executed tasks and their cwd, resulting tree and rows, and printed locations (relative paths resolved against the invoking directory) must coincide.",
             note=E1_NOTE + " A frozen clock script is given to every variant so that new version ids coincide.", ref="DESIGN.md §3 C17"),
 "C18": dict(level="exploration", engine="E1/E4 (real processes, probe)", technique="runtime monitoring of combine outputs across run histories: resolved link targets vs the directory each dependency's own probe saw as COND_OUT (or `cond where` before the run)",
             text="combine over dependencies of every kind in nested packages with a sibling consumer; histories run / --again / partial re-runs; every entry must be a symlink resolving to exactly the directory the dependency produced or had selected, equal to what the sibling received in COND_DEPS; a pre-existing regular file or directory must be reported, not overwritten.",
             note=E1_NOTE, ref="DESIGN.md §3 C18"),
}

def main():
    checks = []
    for pid in ALL:
        if pid not in CHECKS:
            continue
        c = CHECKS[pid]
        checks.append({
            "property_id": pid,
            "quick_cmd": "./check %s --tier quick" % pid,
            "thorough_cmd": "./check %s --tier thorough" % pid,
            "evidence_file": "evidence/%s.json" % pid,
            "replay_cmd_template": "./check %s --replay {path}" % pid,
            "engine": c["engine"],
            "level_claimed": {"category": c["level"], "text": c["text"], "design_ref": c["ref"]},
            "level_note": c["note"],
            "technique": c["technique"],
        })
    na = [{"property_id": p, "reason": "not claimed"} for p in ALL if p not in CHECKS]
    m = {
        "version": 1,
        "setup_cmd": "./setup.sh",
        "hooks": {"guard": "CONDUCTOR_VERIF", "enable": "no source hooks: all instrumentation is injected from /verif (interposed stdlib entry points, audit hooks, sys.monitoring); checks import /repo/src directly", 
                  "baseline_off_cmd": "cd /repo && /venv/bin/python -m pytest -ra -q -p no:cacheprovider --timeout=900 --continue-on-collection-errors", "source_commits": [], "add_only": True},
        "engines": [
            {"name": "E2 fakekernel", "path": "cverif/fakekernel.py", "serves_properties": ["C01", "C02", "C03", "C04", "C09", "C16", "C19"], "kind_free_text": "real Conductor + real CPython subprocess lifecycle over an interposed process kernel with scheduler strategies; history recorder"},
            {"name": "E1 procmon", "path": "cverif/realrun.py", "serves_properties": ["C05", "C06", "C07", "C08", "C10", "C11", "C12", "C13", "C17", "C18"], "kind_free_text": "real projects whose task commands are a probe (cverif/probe.py) that records argv/cwd/env/listing and follows a script; real kernel and processes"},
            {"name": "E3 crashpoint", "path": "cverif/cli.py", "serves_properties": ["C06", "C12"], "kind_free_text": "sys.monitoring LINE events -> os._exit(137) at the k-th main-thread line of conductor.* / shutil.py; real SIGKILL soak"},
            {"name": "E4 statecheck", "path": "cverif/statecheck.py", "serves_properties": ["C05", "C08", "C11", "C12", "C13", "C17", "C18"], "kind_free_text": "command histories over real projects with full-tree Merkle snapshots and independent index reads, compared with reference models"},
            {"name": "E5 frontend", "path": "cverif/checks/c14.py", "serves_properties": ["C14", "C15", "C19", "C20"], "kind_free_text": "in-process input-space workloads over the real parser/validator/identifier code with reference-model oracles"},
            {"name": "cli runner", "path": "cverif/cli.py", "serves_properties": ["C05", "C06", "C07", "C08", "C10", "C11", "C12", "C13", "C14", "C15", "C17", "C18", "C20"], "kind_free_text": "runs the real CLI (forked from a warmed interpreter, or a separate python -m conductor) with optional audit-hook trace, clock script, crash-at-line"},
        ],
        "checks": checks,
        "not_applicable": na,
        "notes": "Runtime monitoring family. Exit codes: 0 held, 1 violation (VIOLATION line), 2 inconclusive (INCONCLUSIVE line; never on the unchanged tree). VERIF_SEED selects the workload seed.",
    }
    with open(os.path.join(HERE, "MANIFEST.json"), "w") as f:
        json.dump(m, f, indent=1)
    print("MANIFEST: %d checks, %d not_applicable" % (len(checks), len(na)))

if __name__ == "__main__":
    main()
