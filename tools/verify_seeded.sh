#!/bin/bash
# tools/verify_seeded.sh <PROP> <1|2|3>  - independent confirmation of a sub-agent's mutant in its scratch worktree:
# patch applies to /repo HEAD, test-suite passes with it, demo fails with it and passes without it.
P=$1; N=$2; W=${WTBASE:-/tmp/wt}-$P
D=$W/MUTANT.diff; DEMO=$(ls $W/demo.sh $W/demo.py 2>/dev/null | head -1)
[ "$N" = 2 ] && { D=$W/MUTANT2.diff; DEMO=$(ls $W/demo2.sh $W/demo2.py 2>/dev/null | head -1); }
# round-4 naming: MUTANT<N>.diff with demo<N>.sh|py
[ -f "$W/MUTANT$N.diff" ] && { D=$W/MUTANT$N.diff; DEMO=$(ls $W/demo$N.sh $W/demo$N.py 2>/dev/null | head -1); }
[ -f "$D" ] || { echo "no diff $D"; exit 2; }
cd $W && git checkout -q -- src && git apply "$D" || { echo "APPLY FAILED"; exit 2; }
run_demo() { case "$DEMO" in *.py) PYTHONPATH=$W/src PATH=/venv/bin:$PATH timeout 600 /venv/bin/python "$DEMO" >/tmp/demo-$P-$N.log 2>&1;; *) PYTHONPATH=$W/src PATH=/venv/bin:$PATH timeout 600 bash "$DEMO" >/tmp/demo-$P-$N.log 2>&1;; esac; echo $?; }
[ -n "$SKIP37" ] && T37=skipped || T37=$(cd $W && PYTHONPATH=$W/src /venv/bin/python -m pytest -q -p no:cacheprovider --timeout=900 -q $(python3 -c "
import json; print(' '.join(t.split('::')[0].replace('.', '/')+'.py::'+t.split('::')[1] for t in json.load(open('/root/.vp/BASELINE.json'))['stable_pass']))") 2>&1 | tail -1)
T120=$(cd $W && PYTHONPATH=$W/src PATH=/venv/bin:$PATH /venv/bin/python -m pytest -q -p no:cacheprovider --timeout=900 -q 2>&1 | tail -1)
WITH=$(run_demo)
git checkout -q -- src
WITHOUT=$(run_demo)
git apply "$D"
echo "$P/$N tests(pinned 37): $T37 | all: $T120 | demo with=$WITH without=$WITHOUT"
