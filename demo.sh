#!/bin/bash
# Demo for MUTANT.diff: a dependency that is declared twice under two different
# spellings (":prep" and "//:prep") must be rejected (DuplicateDependency).
# With the mutant it is accepted, the dependent is linked to the dependency's
# operation twice and is enqueued twice when the dependency finishes, so
# //:main executes twice in one `cond run` and the progress shows (3/2).
# Exits 0 when the property holds, 1 when it is violated.
set -u
export PYTHONPATH=/tmp/wt-C02/src
export PATH=/venv/bin:$PATH
BASE=/tmp; [ -d /dev/shm ] && BASE=/dev/shm
T=$(mktemp -d "$BASE/c02demo.XXXXXX")
trap 'rm -rf "$T"' EXIT
mkdir -p "$T/proj"
cd "$T/proj"
echo 'disable_git = true' > cond_config.toml
cat > COND <<COND
run_command(name="prep", run="echo prep >> $T/log.txt")
run_command(name="other", run="echo other >> $T/log.txt")
run_command(
  name="main",
  run="echo main >> $T/log.txt",
  deps=[":prep", ":other", "//:prep"],
)
COND
touch "$T/log.txt"
python -m conductor run //:main > "$T/out.txt" 2>&1
rc=$?
cat "$T/out.txt"
n_main=$(grep -c '^main$' "$T/log.txt")
n_prep=$(grep -c '^prep$' "$T/log.txt")
echo "cond exit code: $rc; executions: main=$n_main prep=$n_prep"
fail=0
if [ "$n_main" -gt 1 ] || [ "$n_prep" -gt 1 ]; then
  echo "VIOLATION: a task was executed more than once in a single invocation"
  fail=1
fi
# Progress counters must never exceed the announced total.
if grep -Eo '\(([0-9]+)/([0-9]+)\)' "$T/out.txt" | tr -d '()' | awk -F/ '$1>$2{bad=1} END{exit !bad}'; then
  echo "VIOLATION: progress counter exceeds the progress total"
  fail=1
fi
# Either the duplicate is rejected (nothing runs) or every task runs exactly once.
if [ "$rc" -eq 0 ] && { [ "$n_main" -ne 1 ] || [ "$n_prep" -ne 1 ]; }; then
  fail=1
fi
exit $fail
