"""E4 helpers: projects with nested packages whose cond-out is produced by *real* histories
(successful / failing / repeated runs), plus hostile manual additions; full-tree snapshots."""
import os
import stat

from . import common, gen, cli, realrun

PKGS = ["", "a", "a/b", "c-d"]


def std_project(scroot, name="p", rng=None, rich_outputs=False, disable_git=True, hostile=None, extend_seed=None):
    """experiments in nested packages, a run_command and a combine in between; extend_seed adds a random acyclic
    extension (experiments x0.. over the fixed ones, a group //:rx listing a shuffled mix of everything)"""
    T = gen.mk_task
    tasks = [
        T("", "e1", "run_experiment", par=True, args=[1, "x"], options={"k": 2.5}),
        T("a", "e2", "run_experiment", ["//:e1"], par=True),
        T("a/b", "e3", "run_experiment", ["//a:e2"], par=True, options={"flag": True}),
        T("a", "c1", "run_command", ["//:e1"]),
        T("c-d", "e4", "run_experiment", ["//a:c1", "//:e1"], par=True),
        T("", "k", "combine", ["//:e1", "//a:e2"]),
        T("", "g", "group", ["//a/b:e3", "//c-d:e4", "//:k"]),
        # diamond over experiments, both listing orders
        T("", "d1", "run_experiment", ["//a:e2", "//:e1"]),
        T("", "d2", "run_experiment", ["//:e1", "//a:e2"]),
        T("", "dd", "group", ["//:d1", "//:d2", "//a:e2", "//:e1"]),
        # nothing archivable in these closures
        T("c-d", "solo", "run_command"),
        T("", "plain", "group", ["//c-d:solo"]),
    ]
    if extend_seed is not None:
        import random
        xr = random.Random("stdx-%s" % extend_seed)
        pool = ["//:e1", "//a:e2", "//a/b:e3", "//a:c1"]
        xs = []
        for j in range(xr.randint(2, 4)):
            cand = pool + xs
            deps = xr.sample(cand, xr.randint(0, min(3, len(cand))))
            # legal names that other programs read differently: a leading '-' (an option, to tar), a package that is
            # called like Conductor's own staging directory
            t = T(xr.choice(PKGS + ["-p", "archive-tmp", "a/-q"]), xr.choice(["x%d", "x%d", "-x%d", "--x%d"]) % j, xr.choice(["run_experiment", "run_experiment", "run_command"]), deps, par=xr.random() < 0.5)
            tasks.append(t)
            xs.append(t["id"])
        mix = xr.sample(pool + xs, xr.randint(2, len(pool) + len(xs)))
        tasks.append(T("", "rx", "group", mix))
    scripts = {}
    for t in tasks:
        if t["kind"] in gen.PROC_KINDS:
            steps = [["file", "data/o.bin", realrun.b64(os.urandom(24))], ["out", 1, realrun.b64(("out of %s\n" % t["id"]).encode())], ["out", 2, realrun.b64(b"err\n")]]
            if rich_outputs and t["kind"] == "run_experiment":
                steps += [["mkdir", "empty-dir"], ["file", "zero", realrun.b64(b"")], ["file", "bin/tool", realrun.b64(b"#!/bin/sh\n"), 0o755],
                          ["file", "unié中.txt", realrun.b64("unicode".encode())], ["file", "nested/deep/er/f.bin", realrun.b64(bytes(range(256)))],
                          ["symlink", "rel-link", "data/o.bin"], ["symlink", "dir-link", "nested/deep"]]
                if t["id"] == "//a:e2":
                    steps += [["fifo", "ipc/control.fifo"]]   # a named pipe left behind by the experiment (tar archives it)
            steps.append(["marker"])
            scripts[t["id"]] = {"steps": steps}
    return realrun.Project(scroot, tasks, scripts, name=name, disable_git=disable_git, hostile=hostile)


def run_history(pr, rng, nsteps, base_scripts=None, clock_base=None):
    """random real run history: successes, failures (unrecorded leftovers), --again"""
    import json
    base = json.loads(json.dumps(base_scripts or pr.scripts))
    exps = [t["id"] for t in pr.tasks if t["kind"] == "run_experiment"]
    log = []
    for i in range(nsteps):
        pr.scripts = json.loads(json.dumps(base))
        fail = []
        if rng.random() < 0.4:
            fail = rng.sample(exps, rng.randint(1, 2))
            for x in fail:
                pr.scripts[x]["exit"] = 3
        pr.write_scn()
        tgt = rng.choice(["//:g", "//:g", "//:dd", "//a/b:e3", "//:e1", "//c-d:e4", "//:k"] + (["//:rx"] * 4 if "//:rx" in pr.tb else []))
        argv = ["run", tgt] + (["--again"] if rng.random() < 0.5 else []) + (["-j", "3"] if rng.random() < 0.5 else [])
        r = pr.cond(argv, timeout=120, **({"clock": [clock_base + 50 * i]} if clock_base is not None else {}))
        log.append({"argv": argv, "fail": fail, "exit": r.code})
    pr.scripts = base
    pr.write_scn()
    return log


def full_snapshot(base):
    """{relpath: signature} for every entry below base (not following symlinks)"""
    snap = {}
    for dp, dns, fns in os.walk(base):
        for n in dns + fns:
            full = os.path.join(dp, n)
            rel = os.path.relpath(full, base)
            st = os.lstat(full)
            if stat.S_ISLNK(st.st_mode):
                snap[rel] = "L:" + os.readlink(full)
            elif stat.S_ISDIR(st.st_mode):
                snap[rel] = "D"
            else:
                snap[rel] = "F:" + realrun.tree_hash(full)
        dns[:] = [d for d in dns if not os.path.islink(os.path.join(dp, d))]
    return snap
