"""Postconditions attached to real repository functions (icontract when importable, otherwise a
small fallback decorator).  Conditions record instead of raising, so that the monitored code is
never disturbed; each condition counts its evaluations (zero evaluations => inconclusive)."""
import functools
import inspect

try:
    import icontract  # noqa
    HAVE_ICONTRACT = True
except Exception:  # pragma: no cover
    icontract = None
    HAVE_ICONTRACT = False


class Monitor:
    def __init__(self):
        self.evals = {}
        self.failures = []

    def note(self, name, ok, detail=None):
        self.evals[name] = self.evals.get(name, 0) + 1
        if not ok and len(self.failures) < 50:
            self.failures.append({"contract": name, "detail": detail})
        return True


def attach_post(owner, attr, cond, name, mon):
    """Wrap owner.attr (function / staticmethod / classmethod) so that after every *normal* return
    cond(args, kwargs, result) -> (ok, detail) is evaluated.  Exceptions pass through; `on_raise`
    conditions are handled by attach_raise."""
    raw = inspect.getattr_static(owner, attr)
    kind = "plain"
    fn = raw
    if isinstance(raw, staticmethod):
        kind, fn = "static", raw.__func__
    elif isinstance(raw, classmethod):
        kind, fn = "class", raw.__func__

    def record(result, *a, **k):
        try:
            ok, detail = cond(a, k, result)
        except Exception as ex:  # a broken condition is the harness's fault, not a violation
            mon.note(name + ":condition-error", True, repr(ex))
            return True
        return mon.note(name, ok, detail)

    if HAVE_ICONTRACT:
        def _post(result, _ARGS, _KWARGS):
            return record(result, *_ARGS, **_KWARGS)
        wrapped = icontract.ensure(_post, error=AssertionError)(fn)
    else:
        @functools.wraps(fn)
        def wrapped(*a, **k):
            r = fn(*a, **k)
            record(r, *a, **k)
            return r
    if kind == "static":
        wrapped = staticmethod(wrapped)
    elif kind == "class":
        wrapped = classmethod(wrapped)
    setattr(owner, attr, wrapped)
    return raw


def restore(owner, attr, raw):
    setattr(owner, attr, raw)
