"""E2: an interposed process kernel.  The real Conductor code (CLI -> planner -> executor ->
SigchldHelper -> CPython's real subprocess.Popen lifecycle) runs in this process; only the
process primitives are replaced by a small model of what Linux can do:

  fork_exec / waitpid / getpgid / killpg / kill / the *blocking* read of an empty pipe.

Child exits happen at kernel entries (and, optionally, at line boundaries of Conductor code),
SIGCHLD is coalesced and delivered by calling the *registered* Python handler when an
interposed call returns.  When Conductor blocks in a read while no child is running and no
signal is pending, that is a deadlock and is reported as such (hangs are detected, not waited
for).  The kernel log is the history all scheduling oracles work on.

This module must be used inside a forked, single-use process (it patches stdlib entry points).
"""
import errno
import os
import select
import signal
import subprocess
import sys
import threading

FAKE_PID_BASE = 5_000_000


class Deadlock(BaseException):
    pass


class WatchdogFired(BaseException):
    pass


class Proc:
    __slots__ = ("pid", "pgid", "state", "status", "task", "env", "cwd", "argv", "t_spawn", "t_exit",
                 "t_reap", "reaped_by", "signals", "script", "held", "unrelated")

    def __init__(self, pid):
        self.pid = pid
        self.pgid = pid
        self.state = "running"  # running | zombie | reaped
        self.status = None
        self.task = None
        self.env = {}
        self.cwd = None
        self.argv = None
        self.t_spawn = None
        self.t_exit = None
        self.t_reap = None
        self.reaped_by = None
        self.signals = []
        self.script = {}
        self.held = False
        self.unrelated = False


def status_of(script):
    if "signal" in script:
        return int(script["signal"]) & 0x7F
    return (int(script.get("exit", 0)) & 0xFF) << 8


def returncode_of(status):
    if os.WIFSIGNALED(status):
        return -os.WTERMSIG(status)
    return os.WEXITSTATUS(status)


class Kernel:
    def __init__(self, rng, strategy, script_for, ident_of, max_steps=200000):
        """script_for(task_key) -> dict(exit|signal|launch_fail|ignore_term); ident_of(env, cwd, argv)
        -> task key."""
        self.rng = rng
        self.st = strategy
        self.script_for = script_for
        self.ident_of = ident_of
        self.t = 0
        self.log = []
        self.procs = {}
        self.next_pid = FAKE_PID_BASE + 1
        self.pending = False
        self.in_handler = False
        self.main_ident = threading.get_ident()
        self.uninterposed = []
        self.deadlock = None
        self.max_steps = max_steps
        self.steps = 0
        self.states_seen = set()
        self.sigchld_deliveries = 0
        self.max_batch = 0
        self.lost_candidates = 0
        self.wakeup_fd = -1          # signal.set_wakeup_fd(): written by the C-level handler when a signal ARRIVES
        self.c_handled = False       # a SIGCHLD whose C-level handler has run but whose Python handler has not yet
        self.read_races = 0
        self._real = {}

    def add_unrelated(self, scripts):
        """children of the Conductor process that Conductor did not start (inherited / started by a
        library): they exit whenever the scheduler says so and are reaped by waitpid(-1) like any child"""
        for sc in scripts:
            pid = self.next_pid
            self.next_pid += 1
            p = Proc(pid)
            p.unrelated = True
            p.task = None
            p.script = dict(sc)
            p.t_spawn = self.ev("unrelated_child", pid=pid, script=sc)
            self.procs[pid] = p

    # ------------------------------------------------------------------ log
    def ev(self, kind, **data):
        self.t += 1
        self.log.append([self.t, kind, data])
        return self.t

    def is_main(self):
        return threading.get_ident() == self.main_ident

    def running(self):
        return [p for p in self.procs.values() if p.state == "running"]

    # ------------------------------------------------------------------ world steps
    def _exit(self, p, forced_status=None):
        if p.state != "running":
            return
        if forced_status is not None:
            st = forced_status
        elif p.signals and not p.script.get("ignore_term") and any(s in (signal.SIGTERM, signal.SIGKILL, signal.SIGINT) for s in p.signals):
            sig = [s for s in p.signals if s in (signal.SIGTERM, signal.SIGKILL, signal.SIGINT)][0]
            st = int(sig) & 0x7F
        else:
            st = status_of(p.script)
        p.state = "zombie"
        p.status = st
        p.t_exit = self.ev("exit", pid=p.pid, task=p.task, status=st)
        self.pending = True
        if self.wakeup_fd >= 0:
            try:
                os.write(self.wakeup_fd, bytes([int(signal.SIGCHLD)]))
            except OSError:
                pass

    def _pick(self, cands, k):
        order = self.st.get("order", "random")
        cands = sorted(cands, key=lambda p: p.pid)
        if order == "lifo":
            cands.reverse()
        elif order == "random":
            self.rng.shuffle(cands)
        return cands[:k]

    def _batch(self, n):
        b = self.st.get("batch", "one")
        if b == "all":
            return n
        if b == "two":
            return min(2, n)
        if b == "rand":
            return self.rng.randint(1, n)
        return 1

    def enter(self, where, pid=None):
        """A kernel entry: running children may exit here (chosen by the strategy)."""
        self.steps += 1
        if self.steps > self.max_steps:
            raise WatchdogFired("step budget exhausted")
        run = [p for p in self.running() if not p.held]
        # children that were sent a terminating signal die soon
        for p in list(run):
            if p.signals and not p.script.get("ignore_term") and self.rng.random() < self.st.get("p_term_exit", 0.5):
                self._exit(p)
        run = [p for p in self.running() if not p.held]
        if not run:
            return
        pmap = self.st.get("p_exit", {})
        prob = pmap.get(where, pmap.get("*", 0.0))
        if where == "waitpid_pid" and pid is not None and self.st.get("target_waitpid_pid"):
            tgt = self.procs.get(pid)
            if tgt is not None and tgt.state == "running" and not tgt.held:
                self.lost_candidates += 1
                self._exit(tgt)
                return
        if prob > 0 and self.rng.random() < prob:
            k = self._batch(len(run))
            for p in self._pick(run, k):
                self._exit(p)
            self.max_batch = max(self.max_batch, k)

    def advance_blocked(self, what):
        """Conductor is blocked; the world must move or it is a deadlock."""
        if self.pending:
            return
        run = self.running()
        if not run:
            self.deadlock = {"blocked_in": what, "t": self.t, "sigchld_taken_by_C_handler_before_the_blocking_read": self.c_handled,
                             "zombies": [p.pid for p in self.procs.values() if p.state == "zombie"],
                             "reaped_by_pid_wait": [[p.pid, p.task] for p in self.procs.values() if p.state == "reaped" and p.reaped_by != -1]}
            self.ev("deadlock", **self.deadlock)
            raise Deadlock(what)
        free = [p for p in run if not p.held] or run
        for p in free:
            p.held = False
        k = self._batch(len(free))
        self.max_batch = max(self.max_batch, k)
        for p in self._pick(free, k):
            self._exit(p)

    def deliver(self):
        """Run the registered SIGCHLD handler if a SIGCHLD is pending (never nested)."""
        if not self.is_main() or self.in_handler:
            return
        try:
            if signal.SIGCHLD in signal.pthread_sigmask(signal.SIG_BLOCK, []):
                # SIGCHLD is blocked in the main thread: it stays pending (and nothing interrupts a read)
                if self.pending and not getattr(self, "_noted_blocked", False):
                    self._noted_blocked = True
                    self.ev("sigchld_blocked_by_mask")
                return
        except (OSError, ValueError):
            pass
        if self.c_handled:
            self.c_handled = False
            self.pending = True
        while self.pending:
            self.pending = False
            h = signal.getsignal(signal.SIGCHLD)
            if not callable(h):
                # SIG_DFL for SIGCHLD = ignored; zombies stay
                self.ev("sigchld_dropped")
                return
            self.in_handler = True
            self.sigchld_deliveries += 1
            nz = sum(1 for p in self.procs.values() if p.state == "zombie")
            self.ev("sigchld", zombies=nz)
            try:
                h(signal.SIGCHLD, sys._getframe())
            finally:
                self.in_handler = False

    # ------------------------------------------------------------------ interposed primitives
    def fork_exec(self, *a):
        args, cwd, env_list = a[0], a[4], a[5]
        errpipe_write = a[13]
        env = {}
        for kv in env_list or []:
            k, _, v = os.fsdecode(kv).partition("=")
            env[k] = v
        argv = [os.fsdecode(x) for x in args]
        if "COND_NAME" not in env or not self.is_main():
            # not a task process (git, tar, ...): the real thing
            self.ev("real_spawn", argv=argv[:4])
            return self._real["fork_exec"](*a)
        if any("\0" in x for x in argv):
            # what the real _fork_exec does with such an argument vector (before anything is forked)
            raise ValueError("embedded null byte")
        self.enter("fork_exec")
        pid = self.next_pid
        self.next_pid += 1
        p = Proc(pid)
        p.env = env
        p.cwd = os.fsdecode(cwd) if cwd is not None else os.getcwd()
        p.argv = argv
        p.task = self.ident_of(env, p.cwd, argv)
        p.script = dict(self.script_for(p.task) or {})
        self.procs[pid] = p
        lf = p.script.get("launch_fail")
        p.t_spawn = self.ev("spawn", pid=pid, task=p.task, slot=env.get("COND_SLOT"), cwd=p.cwd,
                            argv=argv, env={k: v for k, v in env.items() if k.startswith("COND_")}, launch_fail=lf)
        if lf:
            if lf == "chdir":
                os.write(errpipe_write, b"OSError:%x:noexec:chdir" % errno.ENOENT)
            else:
                os.write(errpipe_write, b"OSError:%x:" % errno.E2BIG)
            self._exit(p, forced_status=255 << 8)
        else:
            if self.st.get("starve_first") and not any(q.held for q in self.procs.values()):
                p.held = True
            if self.rng.random() < self.st.get("p_exit", {}).get("in_fork", 0.0):
                self._exit(p)
        self.snapshot_state()
        self.deliver()
        return pid

    def waitpid(self, pid, options):
        if pid != -1 and pid < FAKE_PID_BASE:
            return self._real["waitpid"](pid, options)
        if not self.is_main():
            return self._real["waitpid"](pid, options)
        try:
            return self._waitpid(pid, options)
        finally:
            if not self.in_handler:
                self.deliver()

    def _waitpid(self, pid, options):
        self.enter("waitpid_any" if pid == -1 else "waitpid_pid", pid=pid)
        while True:
            if pid == -1:
                z = [p for p in self.procs.values() if p.state == "zombie"]
                if z:
                    p = self.rng.choice(sorted(z, key=lambda q: q.pid))
                    return self._reap(p, -1)
                alive = [p for p in self.procs.values() if p.state == "running"]
                if not alive:
                    if not self.procs or all(p.state == "reaped" for p in self.procs.values()):
                        try:
                            return self._real["waitpid"](-1, options)
                        except ChildProcessError:
                            self.ev("waitpid_echild", pid=-1)
                            raise
                if options & os.WNOHANG:
                    return (0, 0)
                self.advance_blocked("waitpid(-1)")
                continue
            p = self.procs.get(pid)
            if p is None or p.state == "reaped":
                self.ev("waitpid_echild", pid=pid)
                raise ChildProcessError(errno.ECHILD, "No child processes")
            if p.state == "zombie":
                return self._reap(p, pid)
            if options & os.WNOHANG:
                return (0, 0)
            p.held = False
            self._exit(p)

    def _reap(self, p, by):
        p.state = "reaped"
        p.reaped_by = by
        p.t_reap = self.ev("reap", pid=p.pid, task=p.task, by=by, status=p.status, in_handler=self.in_handler)
        return (p.pid, p.status)

    def getpgid(self, pid):
        if pid < FAKE_PID_BASE:
            return self._real["getpgid"](pid)
        self.enter("getpgid")
        try:
            p = self.procs.get(pid)
            if p is None or p.state == "reaped":
                raise ProcessLookupError(errno.ESRCH, "No such process")
            return p.pgid
        finally:
            self.deliver()

    def killpg(self, pgid, sig):
        if pgid < FAKE_PID_BASE:
            return self._real["killpg"](pgid, sig)
        self.enter("killpg")
        try:
            members = [p for p in self.procs.values() if p.pgid == pgid and p.state in ("running", "zombie")]
            if not members:
                raise ProcessLookupError(errno.ESRCH, "No such process")
            if any(p.script.get("other_user") for p in members if p.state == "running"):
                # the task switched to another user (sudo, su, a setuid helper): signalling it is refused
                for p in members:
                    self.ev("kill_refused", pid=p.pid, task=p.task, sig=int(sig))
                raise PermissionError(errno.EPERM, "Operation not permitted")
            for p in members:
                self.ev("kill", pid=p.pid, task=p.task, sig=int(sig), state=p.state, via="killpg")
                if p.state == "running":
                    p.signals.append(int(sig))
                    p.held = False
        finally:
            self.deliver()

    def kill(self, pid, sig):
        if abs(pid) < FAKE_PID_BASE:
            return self._real["kill"](pid, sig)
        if pid < 0:
            return self.killpg(-pid, sig)
        self.enter("kill")
        try:
            p = self.procs.get(pid)
            if p is None or p.state == "reaped":
                raise ProcessLookupError(errno.ESRCH, "No such process")
            self.ev("kill", pid=p.pid, task=p.task, sig=int(sig), state=p.state, via="kill")
            if p.state == "running" and sig != 0:
                p.signals.append(int(sig))
                p.held = False
        finally:
            self.deliver()

    def read(self, fd, n):
        real = self._real["read"]
        if not self.is_main() or self.in_handler:
            return real(fd, n)
        had_pending = self.pending
        self.enter("read")
        if (not had_pending) and self.pending and self.rng.random() < self.st.get("p_race_read", 0.0):
            # The child exited after the interpreter's last eval-breaker check and before the read system
            # call was entered: the C-level signal handler has already run (flag set, wakeup fd written),
            # so the system call is NOT interrupted; the Python-level handler only runs once read() returns.
            self.pending = False
            self.c_handled = True
            self.read_races += 1
            self.ev("sigchld_arrived_just_before_read_syscall")
        while True:
            try:
                po = select.poll()
                po.register(fd, select.POLLIN)
                ready = po.poll(0)
            except (OSError, ValueError):
                ready = [1]
            if ready:
                try:
                    return real(fd, n)
                finally:
                    self.deliver()
            if self.pending:
                before_n = self.sigchld_deliveries
                self.deliver()
                if self.sigchld_deliveries != before_n or not self.pending:
                    continue
                # still pending: the signal is masked; only further exits could change anything
                if not self.running():
                    self.deadlock = {"blocked_in": "read(fd=%d)" % fd, "t": self.t, "sigchld_blocked_by_signal_mask": True,
                                     "zombies": [p.pid for p in self.procs.values() if p.state == "zombie"], "reaped_by_pid_wait": []}
                    self.ev("deadlock", **self.deadlock)
                    raise Deadlock("read with SIGCHLD masked")
                for p in self._pick([p for p in self.running()], 1):
                    p.held = False
                    self._exit(p)
                continue
            self.snapshot_state(blocked=True)
            self.advance_blocked("read(fd=%d)" % fd)
            self.deliver()

    def line_point(self):
        """A bytecode-boundary delivery point inside Conductor code (main thread)."""
        p = self.st.get("p_line", 0.0)
        if p <= 0 or self.in_handler or not self.is_main():
            return
        if self.rng.random() < p:
            self.enter("line")
            self.deliver()

    # ------------------------------------------------------------------ statistics only
    def snapshot_state(self, blocked=False):
        try:
            run = sorted((p.env.get("COND_SLOT") or "-") for p in self.running())
            z = sum(1 for p in self.procs.values() if p.state == "zombie")
            self.states_seen.add("%s|run=%s|z=%d" % ("B" if blocked else "S", ",".join(run), z))
        except Exception:  # statistics never decide anything
            pass

    # ------------------------------------------------------------------ install
    def install(self):
        self._real = {
            "fork_exec": subprocess._fork_exec,
            "waitpid": os.waitpid,
            "getpgid": os.getpgid,
            "killpg": os.killpg,
            "kill": os.kill,
            "read": os.read,
        }
        subprocess._fork_exec = self.fork_exec
        os.waitpid = self.waitpid
        d = subprocess.Popen._internal_poll.__defaults__
        if d is not None and len(d) >= 2 and getattr(d[1], "__name__", "") == "waitpid":
            subprocess.Popen._internal_poll.__defaults__ = (d[0], self.waitpid) + tuple(d[2:])
        else:
            self.uninterposed.append("Popen._internal_poll defaults have an unknown shape")
        os.getpgid = self.getpgid
        os.killpg = self.killpg
        os.kill = self.kill
        os.read = self.read

        def flag(name, fn):
            def w(*a, **k):
                self.uninterposed.append(name)
                return fn(*a, **k)
            return w

        for name in ("wait", "wait3", "wait4", "waitid", "fork", "forkpty", "posix_spawn", "posix_spawnp", "pidfd_open", "waitstatus_to_exitcode"):
            if name == "waitstatus_to_exitcode":
                continue
            if hasattr(os, name):
                setattr(os, name, flag("os." + name, getattr(os, name)))
        real_set_wakeup_fd = signal.set_wakeup_fd

        def set_wakeup_fd(fd, **kw):
            self.ev("set_wakeup_fd", fd=fd)
            self.wakeup_fd = fd
            return real_set_wakeup_fd(fd, **kw)

        signal.set_wakeup_fd = set_wakeup_fd
        for name in ("sigwait", "sigwaitinfo", "sigtimedwait", "pidfd_send_signal"):
            if hasattr(signal, name):
                setattr(signal, name, flag("signal." + name, getattr(signal, name)))
