"""Scheduling workloads + reference model + history oracles for C01, C02, C03, C04, C09 (E2).

The reference model is written from the documentation and the property statements and works
only on the generator's DAG and on index rows read through an independent sqlite connection.
"""
import os
import shutil
import sqlite3

from . import common, gen, schedsim

PROC = gen.PROC_KINDS


# --------------------------------------------------------------------------------------------
# reference model
# --------------------------------------------------------------------------------------------

def read_rows(root):
    dbp = os.path.join(root, "cond-out", "version_index.sqlite")
    if not os.path.exists(dbp):
        return []
    c = sqlite3.connect(dbp)
    try:
        return [list(r) for r in c.execute("SELECT task_identifier, timestamp, git_commit_hash, has_uncommitted_changes FROM version_index ORDER BY 1,2")]
    finally:
        c.close()


def plan_model(tasks_by_id, target, rows, again):
    """Non-git projects: an experiment is reusable iff it has a recorded version (newest wins)."""
    have = {r[0] for r in rows}
    executed, cached, seen = [], [], set()

    def visit(x):
        if x in seen:
            return
        seen.add(x)
        t = tasks_by_id[x]
        if t["kind"] == "run_experiment" and not again and x in have:
            cached.append(x)
            return
        executed.append(x)
        for d in t["deps"]:
            visit(d)

    visit(target)
    return executed, cached


def outcome_model(tasks_by_id, executed, script):
    """F = executed process tasks scripted to fail; S = executed tasks with a failed/skipped
    executed direct dependency (transitively)."""
    ex = set(executed)
    failed = {x for x in ex if tasks_by_id[x]["kind"] in PROC and is_failure(script.get(x, {}))}
    memo = {}

    def skipped(x):
        if x in memo:
            return memo[x]
        memo[x] = False
        r = False
        for d in tasks_by_id[x]["deps"]:
            if d in ex and (d in failed or skipped(d)):
                r = True
                break
        memo[x] = r
        return r

    sk = {x for x in ex if skipped(x)}
    failed -= sk
    return failed, sk


def is_failure(s):
    return bool(s.get("launch_fail")) or ("signal" in s) or (int(s.get("exit", 0)) & 0xFF) != 0


# --------------------------------------------------------------------------------------------
# running a case
# --------------------------------------------------------------------------------------------

def run_case(case, scratch_root):
    """Builds the project, runs the history of invocations (each in its own process over the
    interposed kernel), returns one record per invocation with model + observed history."""
    tasks = case["tasks"]
    tb = {t["id"]: t for t in tasks}
    root = os.path.join(scratch_root, "p")
    gen.write_project(root, tasks)
    recs = []
    for inv in case["history"]:
        if inv.get("retype"):
            # the COND files are edited between invocations: some tasks change their type (same identifier)
            for t in tasks:
                if t["id"] in inv["retype"]:
                    t["kind"] = inv["retype"][t["id"]]
            gen.write_project(root, tasks)
            tb = {t["id"]: t for t in tasks}
        rows_before = read_rows(root)
        argv = ["run", inv["target"]]
        if inv.get("jobs") is not None:
            argv += ["-j", str(inv["jobs"])]
        if inv.get("again"):
            argv.append("--again")
        if inv.get("stop_early"):
            argv.append("--stop-early")
        spec = {"root": root, "cwd": inv.get("cwd", ""), "argv": argv, "script": inv.get("script", {}),
                "strategy": inv.get("strategy", "blocked-fifo"), "seed": inv.get("seed", 0),
                "inject": inv.get("inject"), "count_lines": inv.get("count_lines", False), "unrelated": inv.get("unrelated"), "outer_env": inv.get("outer_env"), "proc": inv.get("proc")}
        blockers = []
        nul_tasks = [x for x, sc in inv.get("script", {}).items() if sc.get("launch_fail") == "nul" and x in tb]
        if nul_tasks:
            for x in nul_tasks:
                tb[x]["run"] = "true \0 never reached"
            gen.write_project(root, tasks)
        for x, sc in inv.get("script", {}).items():
            if sc.get("launch_fail") == "outdir" and x in tb and tb[x]["kind"] == "run_command":
                # something that is not a directory sits where the task's output directory belongs
                bp = os.path.join(root, "cond-out", tb[x]["pkg"], tb[x]["name"] + ".task")
                os.makedirs(os.path.dirname(bp), exist_ok=True)
                if os.path.isdir(bp) and not os.path.islink(bp):
                    shutil.rmtree(bp)
                if not os.path.lexists(bp):
                    with open(bp, "w") as f:
                        f.write("not a directory\n")
                    blockers.append(bp)
        kind, res = common.run_forked(schedsim.run_invocation, spec, inv.get("timeout", 90))
        if nul_tasks:
            for x in nul_tasks:
                tb[x]["run"] = "true"
            gen.write_project(root, tasks)
        for bp in blockers:
            try:
                os.unlink(bp)
            except OSError:
                pass
        executed, cached = plan_model(tb, inv["target"], rows_before, inv.get("again", False))
        failed, skipped = outcome_model(tb, executed, inv.get("script", {}))
        recs.append({"inv": inv, "argv": argv, "kind": kind, "res": res if kind == "ok" else None, "err": None if kind == "ok" else res, "tb": {k0: dict(v0) for k0, v0 in tb.items()},
                     "rows_before": rows_before, "rows_after": read_rows(root) if kind == "ok" else None,
                     "executed": executed, "cached": cached, "failed": sorted(failed), "skipped": sorted(skipped)})
    return tb, recs


def witness(case, rec, extra=None, log_tail=120):
    w = {"engine": "E2", "tasks": case["tasks"], "history": case["history"], "argv": rec["argv"], "model": {k: rec[k] for k in ("executed", "cached", "failed", "skipped")},
         "rows_before": rec["rows_before"], "result": rec["res"]["result"] if rec["res"] else rec["err"],
         "log": (rec["res"]["log"][-log_tail:] if rec["res"] else None)}
    if extra:
        w.update(extra)
    return w


def usable(rec, out):
    """A run can only be judged if the interposed kernel saw everything."""
    if rec["kind"] != "ok":
        out["inconclusive"].append({"why": "E2 run " + rec["kind"], "detail": str(rec["err"])[-600:]})
        return False
    if rec["res"]["uninterposed"]:
        out["inconclusive"].append({"why": "un-interposed primitive", "detail": rec["res"]["uninterposed"]})
        return False
    if rec["res"]["result"].get("exception") == "Watchdog":
        out["inconclusive"].append({"why": "watchdog", "detail": rec["res"]["result"].get("watchdog")})
        return False
    return True


def no_process_expected(rec, inv, cand):
    """real kernel: a task that cannot be launched never produces a probe record; interposed kernel: a task
    whose output directory cannot be created never reaches the spawn primitive"""
    sc = inv.get("script", {})
    return {x for x in cand if sc.get(x, {}).get("launch_fail") and (rec.get("e1") or sc[x]["launch_fail"] in ("outdir", "nul"))}


def intervals(rec):
    """task -> list of (t_spawn, t_exit|inf, status, pid, launch_fail)"""
    iv = {}
    for p in rec["res"]["procs"]:
        iv.setdefault(p["task"], []).append((p["t_spawn"], p["t_exit"] if p["t_exit"] is not None else float("inf"), p["status"], p["pid"]))
    return iv


def sync_starts(tb, rec, root_hint=None):
    """first fs event inside a combine task's output directory -> its 'start'"""
    starts = {}
    for t, k, d in rec["res"]["log"]:
        if k != "fs" or not d.get("path"):
            continue
        p = d["path"]
        if "/cond-out/" not in p:
            continue
        rel = p.split("/cond-out/", 1)[1]
        for x, task in tb.items():
            if task["kind"] != "combine":
                continue
            pre = (task["pkg"] + "/" if task["pkg"] else "") + task["name"] + ".task"
            if rel == pre or rel.startswith(pre + "/"):
                starts.setdefault(x, t)
    return starts


# --------------------------------------------------------------------------------------------
# oracles
# --------------------------------------------------------------------------------------------

def oracle_c01(case, tb, rec, out):
    if not usable(rec, out):
        return
    # "transitively depends on ... executed in this invocation": chains all of whose members are
    # executed now.  A cached experiment stands for its whole sub-graph (C02: "hidden behind a
    # reusable cached result"), so a chain through a cached task imposes no ordering.
    ex = set(rec["executed"])
    anc = gen.ancestors_map({k: dict(v, deps=[d for d in v["deps"] if d in ex]) for k, v in tb.items() if k in ex})
    iv = intervals(rec)
    starts = []  # (task, t_start, t_end)
    for x, lst in iv.items():
        for (a, b, st, pid) in lst:
            starts.append((x, a, b))
    for x, t in sync_starts(tb, rec).items():
        starts.append((x, t, t))
        out["reach"]["c01_combine_starts"] = out["reach"].get("c01_combine_starts", 0) + 1
    for x, a, b in starts:
        if x not in anc:
            continue
        for d in anc[x]:
            if d not in iv:
                continue
            out["reach"]["c01_dep_pairs"] = out["reach"].get("c01_dep_pairs", 0) + 1
            ok_before = [1 for (da, db, st, pid) in iv[d] if db < a and st == 0]
            if not ok_before:
                out["violations"].append({"key": "C01:dependent-started-before-dependency-exited-0",
                                          "msg": "%s started at t=%s but its dependency %s had not exited with status 0 before (its executions: %s)" % (x, a, d, iv[d]),
                                          "witness": witness(case, rec)})
                return
            for (da, db, st, pid) in iv[d]:
                if not (db < a or da > b):
                    out["violations"].append({"key": "C01:dependency-and-dependent-overlap",
                                              "msg": "execution of %s [%s,%s] overlaps its dependent %s [%s,%s]" % (d, da, db, x, a, b),
                                              "witness": witness(case, rec)})
                    return
                if da > a:
                    out["violations"].append({"key": "C01:dependency-executed-after-dependent-started",
                                              "msg": "%s (dependency of %s) was started at t=%s, after %s had started at t=%s" % (d, x, da, x, a),
                                              "witness": witness(case, rec)})
                    return
    # The statement read to the letter: EVERY transitive dependency that is executed in this invocation, also one
    # that is only reachable through a task that is not executed now (a cached experiment).  Conductor prunes the
    # plan at cached experiments, so no ordering exists for such pairs; this is reported under its own key.
    anc_full = gen.ancestors_map(tb)
    for x, a, b in starts:
        if x not in anc:
            continue
        for d in sorted((anc_full.get(x, set()) & ex) - anc[x]):
            if d not in iv:
                continue
            out["reach"]["c01_dep_pairs_only_through_cached_tasks"] = out["reach"].get("c01_dep_pairs_only_through_cached_tasks", 0) + 1
            if not [1 for (da, db, st, pid) in iv[d] if db < a and st == 0] or any(not (db < a or da > b) for (da, db, st, pid) in iv[d]):
                via = sorted(m for m in anc_full[x] if m not in ex and d in anc_full.get(m, set()))
                out["violations"].append({"key": "C01:no-ordering-through-a-cached-intermediate-task",
                                          "msg": "%s started at t=%s although %s, which it depends on through the cached (not executed) %s and which IS executed in this invocation, had not exited 0 before (its executions: %s)" % (x, a, d, via[:3], iv[d]),
                                          "witness": witness(case, rec)})
                return


def oracle_c02(case, tb, rec, out):
    if not usable(rec, out):
        return
    inv = rec["inv"]
    res = rec["res"]
    if res["result"].get("exception") == "Deadlock":
        out["inconclusive"].append({"why": "run deadlocked (C09's business)", "detail": None})
        return
    executed, cached = set(rec["executed"]), set(rec["cached"])
    faults = bool(rec["failed"]) or bool(rec["skipped"])
    spawns = {}
    for p in res["procs"]:
        spawns[p["task"]] = spawns.get(p["task"], 0) + 1
    W = lambda **kw: witness(case, rec, kw)
    if case.get("expect_reject"):
        # a definition that must be rejected (C14): whatever happens, no task may run more than once,
        # and if it was rejected nothing may have run at all
        out["reach"]["c02_invalid_definition_runs"] = out["reach"].get("c02_invalid_definition_runs", 0) + 1
        for x, n in spawns.items():
            if n > 1:
                out["violations"].append({"key": "C02:task-executed-more-than-once", "msg": "%s was spawned %d times (its dependent lists it twice under two spellings)" % (x, n), "witness": W()})
                return
        if res["result"].get("exit") not in (0, None) and spawns and "more than once" in schedsim.stdout_text(res["log"], "stderr"):
            out["violations"].append({"key": "C02:task-executed-although-definition-rejected", "msg": "definition rejected but %s ran" % sorted(spawns), "witness": W()})
        return
    out["reach"]["c02_runs"] = out["reach"].get("c02_runs", 0) + 1
    for x, n in spawns.items():
        out["reach"]["c02_spawn_checks"] = out["reach"].get("c02_spawn_checks", 0) + 1
        if n > 1:
            out["violations"].append({"key": "C02:task-executed-more-than-once", "msg": "%s was spawned %d times in one invocation" % (x, n), "witness": W()})
            return
        if x not in executed:
            key = "C02:cached-task-executed" if x in cached else "C02:task-outside-needed-set-executed"
            out["violations"].append({"key": key, "msg": "%s was spawned but the model says it is %s (needed: %s)" % (x, "cached" if x in cached else "not needed", sorted(executed)), "witness": W()})
            return
    lines = schedsim.parse_status_lines(res["log"])
    cached_lines = [l[2] for l in lines if l[1] == "cached"]
    started_lines = [l[2] for l in lines if l[1] in ("running", "skipping")]
    for x in cached_lines:
        if x in spawns or x in started_lines:
            out["violations"].append({"key": "C02:task-both-cached-and-executed", "msg": "%s reported 'Using cached results' and also executed" % x, "witness": W()})
            return
        if x not in cached:
            out["violations"].append({"key": "C02:wrongly-reported-cached", "msg": "%s reported cached, model: %s" % (x, "executed" if x in executed else "not part of the plan"), "witness": W()})
            return
    for x in set(started_lines):
        if started_lines.count(x) > 1:
            out["violations"].append({"key": "C02:task-executed-more-than-once", "msg": "%s was started/skipped %d times" % (x, started_lines.count(x)), "witness": W()})
            return
        if x not in executed:
            out["violations"].append({"key": "C02:task-outside-needed-set-executed", "msg": "%s was started but is not needed (model executed=%s)" % (x, sorted(executed)), "witness": W()})
            return
    totals = {l[4] for l in lines if l[1] in ("running", "skipping") and l[4] is not None}
    if totals:
        out["reach"]["c02_progress_checks"] = out["reach"].get("c02_progress_checks", 0) + 1
        if totals != {len(executed)}:
            out["violations"].append({"key": "C02:progress-total-differs-from-executed-count", "msg": "progress totals %s but %d tasks are to be executed (%s)" % (sorted(totals), len(executed), sorted(executed)), "witness": W()})
            return
    complete = not inv.get("stop_early") and not inv.get("inject") and res["result"].get("exception") is None
    if complete:
        ks = sorted(l[3] for l in lines if l[1] in ("running", "skipping") and l[3] is not None)
        if ks != list(range(1, len(executed) + 1)):
            out["violations"].append({"key": "C02:progress-counter-not-1..N", "msg": "progress counters %s, expected 1..%d" % (ks, len(executed)), "witness": W()})
            return
        need_proc = {x for x in executed if tb[x]["kind"] in PROC} - set(rec["skipped"])
        need_proc -= no_process_expected(rec, inv, need_proc)
        missing = need_proc - set(spawns)
        if missing:
            out["violations"].append({"key": "C02:needed-task-not-executed", "msg": "needed tasks never spawned: %s" % sorted(missing), "witness": W()})
            return
        if set(started_lines) != executed:
            out["violations"].append({"key": "C02:needed-task-not-executed", "msg": "tasks started/skipped %s != needed %s" % (sorted(set(started_lines)), sorted(executed)), "witness": W()})
            return
        # rows added = successful experiments that were executed
        if isinstance(rec["rows_after"], list):
            before = {(r[0], r[1]) for r in rec["rows_before"]}
            added = [r[0] for r in rec["rows_after"] if (r[0], r[1]) not in before]
            want = sorted(x for x in executed if tb[x]["kind"] == "run_experiment" and x not in rec["failed"] and x not in rec["skipped"])
            out["reach"]["c02_row_checks"] = out["reach"].get("c02_row_checks", 0) + 1
            if sorted(added) != want:
                out["violations"].append({"key": "C02:versions-recorded-differ-from-experiments-run", "msg": "index rows added for %s, experiments executed successfully: %s" % (sorted(added), want), "witness": W(rows_after=rec["rows_after"])})
                return


def oracle_c03(case, tb, rec, out):
    if not usable(rec, out):
        return
    inv, res = rec["inv"], rec["res"]
    if res["result"].get("exception") == "Deadlock":
        out["inconclusive"].append({"why": "run deadlocked (C09's business)", "detail": None})
        return
    W = lambda **kw: witness(case, rec, kw)
    executed = set(rec["executed"])
    F, S = set(rec["failed"]), set(rec["skipped"])
    stop = bool(inv.get("stop_early"))
    spawned = {p["task"] for p in res["procs"]}
    lines = schedsim.parse_status_lines(res["log"])
    exit_code = res["result"].get("exit")
    exc = res["result"].get("exception")
    out["reach"]["c03_runs"] = out["reach"].get("c03_runs", 0) + 1
    if F or S:
        out["reach"]["c03_runs_with_faults"] = out["reach"].get("c03_runs_with_faults", 0) + 1
    if exc is not None:
        out["violations"].append({"key": "C03:internal-error-instead-of-report", "msg": "cond run ended with %s\n%s" % (exc, res["result"].get("traceback", "")), "witness": W()})
        return
    # 1. nothing downstream of a failure is ever started
    for x in spawned | {l[2] for l in lines if l[1] == "running"}:
        if x in S:
            out["violations"].append({"key": "C03:dependent-of-failed-task-started", "msg": "%s was started although a (transitive) dependency failed; failed=%s" % (x, sorted(F)), "witness": W()})
            return
    # 1b. the statement read to the letter: also dependents that reach the failed task only through a task that is
    # not executed now (a cached experiment).  Conductor prunes the plan there; reported under its own key.
    anc_full = gen.ancestors_map(tb)
    for x in sorted(spawned | {l[2] for l in lines if l[1] == "running"}):
        if x in executed and x not in S and x not in F and (anc_full.get(x, set()) & F):
            out["reach"]["c03_dependents_only_through_cached_tasks"] = out["reach"].get("c03_dependents_only_through_cached_tasks", 0) + 1
            out["violations"].append({"key": "C03:dependent-through-a-cached-intermediate-task-not-skipped", "msg": "%s was started although %s failed, on which it depends through a cached (not executed) task" % (x, sorted(anc_full[x] & F)), "witness": W()})
            break
    # 2. exit status
    any_fault_observed = bool(F & spawned) or bool(F)
    if not stop:
        should_fail = bool(F)
        if should_fail and exit_code == 0:
            out["violations"].append({"key": "C03:exit-0-despite-failure", "msg": "exit status 0 although %s failed" % sorted(F), "witness": W()})
            return
        if not should_fail and exit_code != 0:
            out["violations"].append({"key": "C03:nonzero-exit-without-failure", "msg": "exit status %s although every needed task succeeds" % exit_code, "witness": W()})
            return
        # 3. independents still run
        need_proc = {x for x in executed if tb[x]["kind"] in PROC and x not in S}
        need_proc -= no_process_expected(rec, inv, need_proc)
        if need_proc - spawned:
            out["violations"].append({"key": "C03:independent-task-not-run", "msg": "unaffected tasks never started: %s (failed=%s skipped=%s)" % (sorted(need_proc - spawned), sorted(F), sorted(S)), "witness": W()})
            return
        # 4. report names exactly failed / skipped
        rep_f = sorted(l[2] for l in lines if l[1] == "report_failed")
        rep_s = sorted(l[2] for l in lines if l[1] == "report_skipped")
        if F or S:
            out["reach"]["c03_report_checks"] = out["reach"].get("c03_report_checks", 0) + 1
            if rep_f != sorted(F):
                out["violations"].append({"key": "C03:failed-report-differs", "msg": "'Failed task(s)' lists %s, actually failed %s" % (rep_f, sorted(F)), "witness": W()})
                return
            if rep_s != sorted(S):
                out["violations"].append({"key": "C03:skipped-report-differs", "msg": "'Skipped task(s)' lists %s, model %s" % (rep_s, sorted(S)), "witness": W()})
                return
        elif rep_f or rep_s:
            out["violations"].append({"key": "C03:failed-report-differs", "msg": "failure report %s/%s without failures" % (rep_f, rep_s), "witness": W()})
            return
    else:
        # --stop-early: observed = Conductor's own "✘ ... failed." line (same thread => total order)
        t_first = None
        for l in lines:
            if l[1] == "failed":
                t_first = l[0]
                break
        failed_seen = [p for p in res["procs"] if p["status"] not in (0, None) and p["state"] == "reaped"]
        if t_first is not None:
            out["reach"]["c03_stop_early_checks"] = out["reach"].get("c03_stop_early_checks", 0) + 1
            late = [p for p in res["procs"] if p["t_spawn"] > t_first]
            if late:
                out["violations"].append({"key": "C03:task-started-after-failure-with-stop-early", "msg": "with --stop-early %s started at t=%s after the first failure was reported at t=%s" % (late[0]["task"], late[0]["t_spawn"], t_first), "witness": W()})
                return
            t_ret = [t for t, k, d in res["log"] if k == "return"][0]
            for p in res["procs"]:
                if p["state"] == "running" and 15 not in p["signals"]:
                    out["violations"].append({"key": "C03:running-task-not-terminated-on-stop-early", "msg": "%s (pid %s) still running at return, never sent SIGTERM" % (p["task"], p["pid"]), "witness": W()})
                    return
                if p["t_exit"] is not None and p["t_exit"] > t_first and p["state"] != "reaped" and 15 not in p["signals"] and False:
                    pass
            if exit_code == 0:
                out["violations"].append({"key": "C03:exit-0-despite-failure", "msg": "exit 0 with --stop-early after a failure", "witness": W()})
                return
        else:
            if F & spawned and exit_code == 0 and all(p["state"] == "reaped" for p in res["procs"] if p["task"] in F):
                out["violations"].append({"key": "C03:exit-0-despite-failure", "msg": "a failing task ran to completion but exit 0 and no failure line", "witness": W()})
                return
            if not F and exit_code != 0:
                out["violations"].append({"key": "C03:nonzero-exit-without-failure", "msg": "exit status %s although nothing failed" % exit_code, "witness": W()})
                return


def oracle_c04(case, tb, rec, out):
    if not usable(rec, out):
        return
    inv, res = rec["inv"], rec["res"]
    jobs = inv.get("jobs") or 1
    W = lambda **kw: witness(case, rec, kw)
    evs = []
    for p in res["procs"]:
        if p["task"] not in tb:
            continue
        evs.append((p["t_spawn"], 1, p))
        evs.append((p["t_exit"] if p["t_exit"] is not None else float("inf"), 0, p))
        out["reach"]["c04_env_checks"] = out["reach"].get("c04_env_checks", 0) + 1
        par = tb[p["task"]]["par"]
        slot = p["slot"]
        if par and jobs > 1:
            if slot is None:
                out["violations"].append({"key": "C04:slot-missing-for-parallel-task", "msg": "%s is parallelizable, jobs=%d, but COND_SLOT is unset" % (p["task"], jobs), "witness": W()})
                return
            if not slot.isdigit() or not (0 <= int(slot) < jobs):
                out["violations"].append({"key": "C04:slot-out-of-range", "msg": "%s got COND_SLOT=%r with jobs=%d" % (p["task"], slot, jobs), "witness": W()})
                return
        else:
            if slot is not None:
                out["violations"].append({"key": "C04:slot-set-for-sequential-task", "msg": "%s (parallelizable=%s, jobs=%d) got COND_SLOT=%r" % (p["task"], par, jobs, slot), "witness": W()})
                return
    evs.sort(key=lambda e: (e[0], e[1]))
    live = {}
    maxc = 0
    for t, start, p in evs:
        if not start:
            live.pop(p["pid"], None)
            continue
        live[p["pid"]] = p
        maxc = max(maxc, len(live))
        out["reach"]["c04_instants"] = out["reach"].get("c04_instants", 0) + 1
        if len(live) > jobs:
            out["violations"].append({"key": "C04:more-than-jobs-running", "msg": "%d task processes running at t=%s with --jobs %d: %s" % (len(live), t, jobs, [q["task"] for q in live.values()]), "witness": W()})
            return
        if len(live) > 1:
            seq = [q["task"] for q in live.values() if not tb[q["task"]]["par"]]
            if seq:
                out["violations"].append({"key": "C04:sequential-task-ran-concurrently", "msg": "non-parallelizable %s running together with %s at t=%s" % (seq, [q["task"] for q in live.values()], t), "witness": W()})
                return
            slots = [q["slot"] for q in live.values()]
            if len(set(slots)) != len(slots):
                out["violations"].append({"key": "C04:duplicate-slot-among-concurrent-tasks", "msg": "concurrent tasks share a COND_SLOT: %s" % [(q["task"], q["slot"]) for q in live.values()], "witness": W()})
                return
    out["sets"].setdefault("c04_max_concurrency", set()).add("jobs=%d max=%d" % (jobs, maxc))


def oracle_c09(case, tb, rec, out):
    if rec["kind"] == "timeout":
        out["inconclusive"].append({"why": "wall-clock watchdog (E2 run did not return)", "detail": None})
        return
    if not usable(rec, out):
        return
    inv, res = rec["inv"], rec["res"]
    W = lambda **kw: witness(case, rec, kw)
    out["reach"]["c09_runs"] = out["reach"].get("c09_runs", 0) + 1
    out["reach"]["c09_sigchld_deliveries"] = out["reach"].get("c09_sigchld_deliveries", 0) + res["stats"]["sigchld"]
    if res["stats"]["max_batch"] > 1:
        out["reach"]["c09_runs_with_batched_exits"] = out["reach"].get("c09_runs_with_batched_exits", 0) + 1
    if res["stats"].get("read_races"):
        out["reach"]["c09_exit_just_before_read_syscall"] = out["reach"].get("c09_exit_just_before_read_syscall", 0) + res["stats"]["read_races"]
    if res["stats"]["lost_candidates"]:
        out["reach"]["c09_exit_at_waitpid_pid_entry"] = out["reach"].get("c09_exit_at_waitpid_pid_entry", 0) + res["stats"]["lost_candidates"]
    r = res["result"]
    if r.get("exception") == "Deadlock":
        dl = r.get("deadlock") or {}
        if dl.get("sigchld_blocked_by_signal_mask"):
            key = "C09:SIGCHLD-left-blocked-run-blocks-forever"
        elif dl.get("sigchld_taken_by_C_handler_before_the_blocking_read"):
            key = "C09:child-exit-just-before-the-blocking-read-is-never-noticed"
        elif dl.get("reaped_by_pid_wait"):
            key = "C09:child-exit-reaped-by-Popen-poll-run-blocks-forever"
        elif dl.get("zombies"):
            key = "C09:unreaped-zombie-run-blocks-forever"
        else:
            key = "C09:run-blocks-forever-with-no-running-task"
        out["violations"].append({"key": key, "msg": "cond run is blocked in %s while no task is running and no SIGCHLD is pending: %s" % (dl.get("blocked_in"), dl), "witness": W()})
        return
    if r.get("exception") is not None:
        out["violations"].append({"key": "C09:internal-error", "msg": "cond run ended with %s\n%s" % (r.get("exception"), r.get("traceback", "")), "witness": W()})
        return
    if inv.get("stop_early") or inv.get("inject"):
        return
    # terminated: every running task must have exited before (nothing left behind)
    for p in res["procs"]:
        if p["state"] == "running":
            out["violations"].append({"key": "C09:returned-while-task-still-running", "msg": "%s still running at return" % p["task"], "witness": W()})
            return
    lines = schedsim.parse_status_lines(res["log"])
    outcome = {}
    for l in lines:
        if l[1] in ("succeeded", "failed", "skipping"):
            outcome.setdefault(l[2], []).append(l[1])
    executed = set(rec["executed"])
    for x in executed:
        out["reach"]["c09_outcome_checks"] = out["reach"].get("c09_outcome_checks", 0) + 1
        o = outcome.get(x, [])
        if len(o) != 1:
            out["violations"].append({"key": "C09:task-without-exactly-one-outcome", "msg": "%s has outcomes %s (needed tasks: %s)" % (x, o, sorted(executed)), "witness": W()})
            return
    # attribution: the reported outcome must match the kernel's status of that task's process
    for p in res["procs"]:
        if p["task"] not in executed or p["status"] is None:
            continue
        o = outcome.get(p["task"], [None])[0]
        want = "succeeded" if p["status"] == 0 else "failed"
        if o != want:
            out["violations"].append({"key": "C09:completion-misattributed", "msg": "%s exited with wait status %s but was reported %s" % (p["task"], p["status"], o), "witness": W()})
            return
    for x in set(outcome) - executed:
        out["violations"].append({"key": "C09:outcome-for-unplanned-task", "msg": "%s reported %s but is not in the needed set" % (x, outcome[x]), "witness": W()})
        return


def oracle_c06(case, tb, rec, out):
    """first sentence of C06 on the interposed kernel: a row may only be added for an execution whose
    process exited with status 0 (the kernel knows every wait status exactly)"""
    if not usable(rec, out):
        return
    res = rec["res"]
    if not isinstance(rec["rows_after"], list):
        return
    before = {(r[0], r[1]) for r in rec["rows_before"]}
    ok0 = {p["task"] for p in res["procs"] if p["status"] == 0}
    bad = {p["task"] for p in res["procs"] if p["status"] not in (0, None)}
    out["reach"]["c06_e2_runs"] = out["reach"].get("c06_e2_runs", 0) + 1
    for r in rec["rows_after"]:
        if (r[0], r[1]) in before:
            continue
        out["reach"]["c06_e2_rows_checked"] = out["reach"].get("c06_e2_rows_checked", 0) + 1
        if r[0] not in ok0 or r[0] in bad:
            out["violations"].append({"key": "C06:version-recorded-for-execution-that-did-not-exit-0", "msg": "[interposed kernel] row %s recorded, but that task's process ended with wait status %s" % (r, [p["status"] for p in res["procs"] if p["task"] == r[0]]),
                                      "witness": witness(case, rec)})
            return


ORACLES = {"C06": oracle_c06, "C01": oracle_c01, "C02": oracle_c02, "C03": oracle_c03, "C04": oracle_c04, "C09": oracle_c09}


def eval_case(arg):
    """Pool entry: arg = (case, props)."""
    case, props = arg
    out = {"sig": None, "nontrivial": True, "reach": {}, "violations": [], "inconclusive": [], "sets": {}}
    with common.Scratch("cve2") as sc:
        tb, recs = run_case(case, sc.root)
        sigparts = []
        for rec in recs:
            for pr in props:
                ORACLES[pr](case, rec.get("tb", tb), rec, out)
            if rec["res"]:
                order = [(k, d.get("task")) for t, k, d in rec["res"]["log"] if k in ("spawn", "exit", "reap")]
                names = {}
                sig = []
                for k, t in order:
                    names.setdefault(t, len(names))
                    sig.append("%s%d" % (k[0], names[t]))
                sigparts.append("".join(sig))
                out["sets"].setdefault("interleavings", set()).add(common.short_hash(sig))
                out["sets"].setdefault("kernel_states", set()).update(rec["res"]["stats"]["states"])
                out["reach"]["events"] = out["reach"].get("events", 0) + len(rec["res"]["log"])
                out["reach"]["spawns"] = out["reach"].get("spawns", 0) + len(rec["res"]["procs"])
        shape = [(t["kind"], t["par"], sorted(t["deps"])) for t in case["tasks"]]
        out["sig"] = common.short_hash([shape, [(i["target"], i.get("jobs"), i.get("again"), i.get("stop_early"), sorted(i.get("script", {}).items())) for i in case["history"]], sigparts])
        out["nontrivial"] = any(len(r["executed"]) >= 2 for r in recs)
        out["sets"] = {k: sorted(v) for k, v in out["sets"].items()}
        out["sample"] = {"family": case.get("family"), "cond": [gen.task_src(t) for t in case["tasks"]][:6],
                         "history": case["history"], "events_first_invocation": (recs[0]["res"]["log"][:40] if recs and recs[0]["res"] else None)}
        if out["violations"]:
            out["violations"] = out["violations"][:2]
    return out


# --------------------------------------------------------------------------------------------
# workloads
# --------------------------------------------------------------------------------------------
FAULTS = [{"exit": 1}, {"exit": 2}, {"exit": 255}, {"exit": 256 + 3}, {"signal": 9}, {"signal": 11}, {"signal": 15}, {"launch_fail": "chdir"}, {"launch_fail": "exec"}, {"launch_fail": "outdir"},
          # a command line that no process can be started with (a NUL byte in run=: '\0' typed in a non-raw string)
          {"launch_fail": "nul"}]


def realrun_envs():
    from . import realrun
    return realrun.PROC_ENVS


def pick_fault(rng, t, pool=None):
    """'outdir' (a file where the output directory belongs) has a predictable location only for run_command"""
    f = dict(rng.choice(pool or FAULTS))
    if f.get("launch_fail") == "outdir" and t["kind"] != "run_command":
        f["launch_fail"] = "chdir"
    return f
ALL_STRATS = list(schedsim.STRATEGIES)
CHEAP_STRATS = [s for s in ALL_STRATS if s not in schedsim.LINE_STRATEGIES]


def mk_history(rng, tasks, target, focus, strategies):
    ids = [t["id"] for t in tasks]
    tb = {t["id"]: t for t in tasks}
    hist = []
    n_inv = rng.choice([1, 1, 2, 3]) if focus in ("deps", "cache") else 1
    for k in range(n_inv):
        last = (k == n_inv - 1)
        tgt = target if last else rng.choice(ids)
        inv = {"target": tgt, "jobs": rng.choice([None, 1, 2, 3, 4, 5]), "again": (rng.random() < 0.2 and k > 0),
               "stop_early": False, "script": {}, "strategy": rng.choice(strategies), "seed": rng.randrange(1 << 30)}
        if focus == "live" and rng.random() < 0.4:
            # children of the cond process that are not tasks (exit statuses differ from the tasks')
            inv["unrelated"] = [dict(rng.choice([{"exit": 0}, {"exit": 5}, {"exit": 1}, {"signal": 9}])) for _ in range(rng.randint(1, 3))]
        if rng.random() < 0.2:
            # nested invocation: the enclosing task's COND_* variables are in Conductor's own environment
            inv["outer_env"] = {"COND_SLOT": str(rng.choice([0, 1, 3, 7])), "COND_NAME": "outer", "COND_OUT": "/outer/cond-out/x.task", "COND_DEPS": "/outer/cond-out/y.task"}
        if rng.random() < 0.15:
            # variables that only change how output is rendered
            inv.setdefault("outer_env", {}).update(rng.choice(realrun_envs()))
        if rng.random() < 0.12:
            inv["proc"] = {"one_cpu": True, "cpu_index": rng.randrange(64)}
        if rng.random() < 0.06:
            inv.setdefault("proc", {})["block_sigchld"] = True   # inherited signal mask of a supervisor
        if focus == "wide":
            inv["jobs"] = rng.choice([1, 2, 2, 3, 3, 4, 6])
            if rng.random() < 0.35:
                # failures (incl. tasks that cannot be launched) while slots are in use
                cl = [x for x in gen.closure(tb, tgt) if tb[x]["kind"] in PROC]
                rng.shuffle(cl)
                for x in cl[:rng.choice([1, 1, 2, 3])]:
                    inv["script"][x] = pick_fault(rng, tb[x], FAULTS + [{"launch_fail": "exec"}, {"launch_fail": "chdir"}, {"launch_fail": "outdir"}])
        if focus == "faults" or (focus in ("live",) and rng.random() < 0.3) or (focus == "deps" and rng.random() < 0.15):
            cl = [x for x in gen.closure(tb, tgt) if tb[x]["kind"] in PROC]
            rng.shuffle(cl)
            nf = rng.choice([1, 1, 2, 3]) if cl else 0
            for x in cl[:nf]:
                inv["script"][x] = pick_fault(rng, tb[x])
            if focus == "faults" and rng.random() < 0.35:
                inv["stop_early"] = True
        if focus == "cache" and k > 0 and rng.random() < 0.3:
            # a task that used to be an experiment (and may have recorded versions) is now a run_command, or vice versa
            cand = [t for t in tasks if t["kind"] in PROC]
            if cand:
                inv["retype"] = {t["id"]: ("run_command" if t["kind"] == "run_experiment" else "run_experiment") for t in rng.sample(cand, min(len(cand), rng.randint(1, 2)))}
        hist.append(inv)
    return hist


def gen_cases(seed, n, focus, strategies=None, max_tasks=8):
    strategies = strategies or CHEAP_STRATS
    rng = common.rng_for("sched", seed, focus)
    cases = []
    fams = gen.structured_families()
    # structured families first (several schedules each)
    for name, tasks, target in fams:
        for rep in range(2 if n < 2000 else 6):
            cases.append({"family": name, "tasks": gen.dump(tasks), "history": mk_history(rng, tasks, target, focus, strategies)})
    if focus in ("live", "wide"):
        for rep in range(8 if n < 2000 else 200):
            k = rng.randint(9, 20)
            fan = [gen.mk_task(rng.choice(["", "a"]), "w%d" % j, rng.choice(["run_command", "run_experiment"]), par=True) for j in range(k)]
            top = gen.mk_task("", "top", rng.choice(["group", "combine", "run_command"]), [t["id"] for t in fan])
            inv = {"target": "//:top", "jobs": rng.choice([9, 10, 12, 16, 24]), "again": False, "stop_early": False, "script": {}, "strategy": rng.choice(["blocked-all", "blocked-all", "blocked-randbatch", "eager", "anywhere"]), "seed": rng.randrange(1 << 30)}
            cases.append({"family": "big-fan", "tasks": gen.dump(fan + [top]), "history": [inv]})
    if focus in ("wide", "faults", "live"):
        # two stages: {F (fails), G} run in parallel; a fan of parallel tasks waits for G only, so the
        # fan becomes ready at once AFTER a failure was processed while the ready queue was empty
        for rep in range(10 if n < 2000 else 300):
            k = rng.randint(3, 6)
            F = gen.mk_task("", "F", rng.choice(["run_command", "run_experiment"]), par=True)
            G = gen.mk_task(rng.choice(["", "a"]), "G", rng.choice(["run_command", "run_experiment"]), par=True)
            fan = [gen.mk_task(rng.choice(["", "a"]), "s%d" % j, rng.choice(["run_command", "run_experiment"]), [G["id"]], par=True) for j in range(k)]
            top = gen.mk_task("", "top", "group", [F["id"]] + [t["id"] for t in fan])
            inv = {"target": "//:top", "jobs": rng.choice([3, 4, 5, 8]), "again": False, "stop_early": False, "script": {F["id"]: pick_fault(rng, F)},
                   "strategy": rng.choice(["blocked-fifo", "blocked-lifo", "blocked-random", "blocked-all", "anywhere"]), "seed": rng.randrange(1 << 30)}
            cases.append({"family": "two-stage-fan-with-failing-sibling", "tasks": gen.dump([F, G] + fan + [top]), "history": [inv]})
    # a -> e -> c with e a cached experiment and c executed again because the target also lists it (the plan is
    # pruned at e, so nothing orders a after c; see the known findings of C01 / C03)
    for rep in range(8 if n < 2000 else 60):
        par = rng.random() < 0.5
        c = gen.mk_task(rng.choice(["", "lib"]), "c", "run_command", par=par)
        e = gen.mk_task("", "e", "run_experiment", [c["id"]], par=par)
        a = gen.mk_task(rng.choice(["", "a"]), "a", rng.choice(["run_command", "run_experiment"]), [e["id"]], par=par)
        order = [a["id"], c["id"]]
        rng.shuffle(order)
        top = gen.mk_task("", "top", "group", order)
        inv1 = {"target": e["id"], "jobs": None, "again": False, "stop_early": False, "script": {}, "strategy": "blocked-fifo", "seed": rng.randrange(1 << 30)}
        inv2 = {"target": "//:top", "jobs": rng.choice([None, 2, 3]), "again": False, "stop_early": False, "script": ({c["id"]: dict(rng.choice(FAULTS[:7]))} if focus == "faults" or rng.random() < 0.3 else {}),
                "strategy": rng.choice(["blocked-fifo", "blocked-lifo", "blocked-random", "anywhere"]), "seed": rng.randrange(1 << 30)}
        cases.append({"family": "dependency-only-through-a-cached-experiment", "tasks": gen.dump([c, e, a, top]), "history": [inv1, inv2]})
    if focus == "faults":
        # --stop-early with a failing and succeeding tasks finishing in ONE batch while more work is waiting
        for rep in range(24 if n < 2000 else 400):
            k = rng.randint(3, 6)
            fan = [gen.mk_task(rng.choice(["", "a"]), "b%d" % j, rng.choice(["run_command", "run_experiment"]), par=True) for j in range(k)]
            waiting = [gen.mk_task("", "w%d" % j, "run_command", par=True) for j in range(rng.randint(1, 4))]
            top = gen.mk_task("", "top", "group", [t["id"] for t in fan + waiting])
            jobs = rng.randint(2, max(2, k - 1))
            failing = rng.sample(fan[:jobs], rng.randint(1, max(1, jobs - 1)))
            inv = {"target": "//:top", "jobs": jobs, "again": False, "stop_early": True, "script": {t["id"]: dict(rng.choice(FAULTS[:7])) for t in failing},
                   "strategy": rng.choice(["blocked-all", "blocked-all", "blocked-batch2", "blocked-randbatch", "eager"]), "seed": rng.randrange(1 << 30)}
            cases.append({"family": "stop-early-batch", "tasks": gen.dump(fan + waiting + [top]), "history": [inv]})
    if focus in ("deps", "cache"):
        for rep in range(6 if n < 2000 else 40):
            # the same dependency listed twice under two spellings: must be rejected, nothing may run
            base = rng.choice(["a", "lib"])
            pk = "" if base == "a" else "lib"
            d = gen.mk_task(pk, "prep", rng.choice(["run_command", "run_experiment"]), par=rng.random() < 0.5)
            other = gen.mk_task("", "o1", "run_command", par=rng.random() < 0.5)
            t = gen.mk_task(pk, "main", rng.choice(["run_command", "run_experiment", "group"]), [d["id"], other["id"], d["id"]], par=rng.random() < 0.5)
            t["dep_strs"] = [":prep", other["id"], d["id"]]
            rng.shuffle(t["dep_strs"])
            t["deps"] = [d["id"] if x in (":prep", d["id"]) else other["id"] for x in t["dep_strs"]]
            hist = mk_history(rng, [d, other, t], t["id"], "deps", strategies)[-1:]
            hist[0]["target"] = t["id"]
            hist[0]["script"] = {}
            cases.append({"family": "alias-duplicate-dependency", "tasks": gen.dump([d, other, t]), "history": hist, "expect_reject": True})
    while len(cases) < n:
        r = rng.random()
        if focus == "wide":
            nt = rng.randint(4, max(5, max_tasks + 4))
            tasks = gen.rand_dag(rng, nt, p_edge=rng.choice([0.05, 0.15, 0.3]), kinds={"run_command": 5, "run_experiment": 3, "group": 1, "combine": 1},
                                 pkgs=rng.choice([[""], ["", "a"], list(gen.PKGS)]), par_p=rng.choice([0.5, 0.8, 1.0]))
            top = gen.mk_task("", "top", rng.choice(["group", "combine", "run_command"]), [t["id"] for t in tasks if rng.random() < 0.8] or [tasks[0]["id"]], par=rng.random() < 0.5)
            tasks.append(top)
            target = top["id"]
            fam = "wide"
        elif r < 0.25:
            depmap = rng.choice(_small_dags(3) if rng.random() < 0.4 else _small_dags(4))
            nn = len(depmap)
            tasks = gen.dag_to_tasks(depmap, kinds=[rng.choice(["run_command", "run_experiment", "run_command", "group", "combine"]) for _ in range(nn)],
                                     pars=[rng.random() < 0.5 for _ in range(nn)], pkg_of=[rng.choice(["", "", "a", "a/b"]) for _ in range(nn)])
            target = tasks[-1]["id"] if rng.random() < 0.7 else rng.choice(tasks)["id"]
            fam = "small-all-orders"
        else:
            nt = rng.randint(2, max_tasks)
            tasks = gen.rand_dag(rng, nt, p_edge=rng.choice([0.2, 0.4, 0.7]), pkgs=rng.choice([[""], ["", "a"], list(gen.PKGS)]), par_p=rng.choice([0.0, 0.5, 1.0]))
            target = tasks[-1]["id"] if rng.random() < 0.6 else rng.choice(tasks)["id"]
            fam = "random"
        if fam in ("random", "wide") and rng.random() < 0.3:
            tasks, target = _share_names(rng, tasks, target)
        cases.append({"family": fam, "tasks": gen.dump(tasks), "history": mk_history(rng, tasks, target, focus, strategies)})
    return cases[:n]


def _share_names(rng, tasks, target):
    """the same task NAME in several packages (identifiers stay unique)"""
    pk = ["", "a", "a/b", "c"]
    pool = ["n%d" % j for j in range(max(2, len(tasks) // 2))]
    ren, used = {}, set()
    for t in tasks:
        for _ in range(12):
            cand = (rng.choice(pk), rng.choice(pool))
            if cand not in used:
                break
        else:
            cand = (t["pkg"], "u-" + t["name"])
        used.add(cand)
        ren[t["id"]] = gen.tid(*cand)
    out = []
    for t in tasks:
        deps = [ren[d] for d in t["deps"]]
        if t["kind"] == "combine":
            seen, keep = set(), []
            for d in deps:
                n0 = gen.split_tid(d)[1]
                if n0 not in seen:
                    seen.add(n0)
                    keep.append(d)
            deps = keep
        p0, n0 = gen.split_tid(ren[t["id"]])
        out.append(gen.mk_task(p0, n0, t["kind"], deps, par=t["par"], rel_ok=rng.random() < 0.7))
    return out, ren[target]


_SD = {}


def _small_dags(n):
    if n not in _SD:
        _SD[n] = list(gen.all_dags(n))
    return _SD[n]
