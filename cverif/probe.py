"""Task-side probe (black box inside the task process).  Invoked by Conductor as
    python3 -S <this file> <scenario.json> <task id> [rendered args / options ...]
Appends JSON records to the scenario's O_APPEND event log: start (argv, cwd, COND_* env, listing
of COND_OUT), optional lib results, term (SIGTERM trapped), end (exit code).  Follows the
per-task script: write byte chunks to fd 1/2, create files, block on a gate FIFO, sleep, spawn a
background grandchild that keeps the pipes open, exit with a status or die by a signal."""
import base64
import json
import os
import signal
import sys
import time


def main():
    scn_path, task = sys.argv[1], sys.argv[2]
    with open(scn_path) as f:
        scn = json.load(f)
    script = scn.get("scripts", {}).get(task, {})
    logfd = os.open(scn["log"], os.O_WRONLY | os.O_APPEND | os.O_CREAT, 0o644)

    def rec(kind, **data):
        data.update(kind=kind, task=task, pid=os.getpid(), t=time.monotonic_ns(), run=os.environ.get("CVERIF_RUN_ID"))
        os.write(logfd, (json.dumps(data) + "\n").encode())

    out = os.environ.get("COND_OUT")
    listing = None
    if out is not None:
        try:
            listing = sorted([e.name, e.stat(follow_symlinks=False).st_size] for e in os.scandir(out))
        except OSError as ex:
            listing = "ERR:" + type(ex).__name__

    def on_term(signum, frame):
        rec("term")
        os._exit(143)

    if not script.get("ignore_term"):
        signal.signal(signal.SIGTERM, on_term)
    else:
        signal.signal(signal.SIGTERM, lambda s, f: rec("term_ignored"))

    rec("start", argv=sys.argv[3:], cwd=os.getcwd(), env={k: v for k, v in os.environ.items() if k.startswith("COND_")},
        listing=listing, out_isdir=(os.path.isdir(out) if out else None), out_isabs=(os.path.isabs(out) if out else None),
        deps_isdir=[os.path.isdir(p) for p in os.environ.get("COND_DEPS", "").split(":") if p])

    for step in script.get("steps", []):
        op = step[0]
        if op == "out":
            data = base64.b64decode(step[2])
            fd = step[1]
            off = 0
            while off < len(data):
                off += os.write(fd, data[off:off + (1 << 16)])
        elif op == "reopen":
            # `echo ... > /dev/stderr` / `>> /dev/stdout`: the command opens its own stream again BY NAME and writes there
            data = base64.b64decode(step[3])
            with open("/dev/stdout" if step[1] == 1 else "/dev/stderr", "ab" if step[2] == "append" else "wb") as f2:
                f2.write(data)
        elif op == "file":
            p = os.path.join(out, step[1])
            os.makedirs(os.path.dirname(p), exist_ok=True)
            with open(p, "wb") as f:
                f.write(base64.b64decode(step[2]))
            if len(step) > 3:
                os.chmod(p, step[3])
        elif op == "mkdir":
            os.makedirs(os.path.join(out, step[1]), exist_ok=True)
        elif op == "symlink":
            p = os.path.join(out, step[1])
            os.makedirs(os.path.dirname(p), exist_ok=True)
            os.symlink(step[2], p)
        elif op == "link_dep_files":
            # `ln -s $COND_DEPS/* $COND_OUT/` (step[1] == "sym") or `cp -al` (hard links): a common way of "starting
            # from" a dependency's results
            for depdir in [d for d in os.environ.get("COND_DEPS", "").split(":") if d]:
                for nm in sorted(os.listdir(depdir)):
                    dst = os.path.join(out, nm)
                    if os.path.lexists(dst) or os.path.isdir(os.path.join(depdir, nm)) or nm == "DONE":
                        continue   # (DONE is written by this probe itself: writing through a link would be the task's doing)
                    try:
                        if step[1] == "sym":
                            os.symlink(os.path.join(depdir, nm), dst)
                        else:
                            os.link(os.path.join(depdir, nm), dst)
                    except OSError:
                        pass
        elif op == "fifo":
            p = os.path.join(out, step[1])
            os.makedirs(os.path.dirname(p), exist_ok=True)
            os.mkfifo(p, 0o640)
        elif op == "gate":
            rec("gated")
            with open(os.path.join(scn["gates"], task.replace("/", "_").replace(":", "_")), "r") as g:
                g.read()
            rec("released")
        elif op == "sleep":
            time.sleep(step[1] / 1000.0)
        elif op == "close":
            os.close(step[1])
        elif op == "bg":
            # a grandchild that inherits our stdout/stderr and lingers
            if os.fork() == 0:
                time.sleep(step[1] / 1000.0)
                if len(step) > 2:
                    os.write(1, base64.b64decode(step[2]))
                os._exit(0)
        elif op == "lib":
            res = {}
            try:
                import conductor.lib as cl
                res["get_output_path"] = str(cl.get_output_path())
                first = cl.get_deps_paths()
                res["get_deps_paths"] = [str(p) for p in first]
                # a caller may do what it likes with the returned list; a later call must still be right
                first.reverse()
                if first:
                    first.pop()
                first.append("garbage")
                res["get_deps_paths_again"] = [str(p) for p in cl.get_deps_paths()]
                res["get_output_path_again"] = str(cl.get_output_path())
                res["in_output_dir"] = str(cl.in_output_dir("sub/file.txt"))
                import pathlib
                res["in_output_dir_path"] = str(cl.in_output_dir(pathlib.Path("q.bin")))
            except Exception as ex:
                res["error"] = repr(ex)
            rec("lib", res=res)
        elif op == "rmcwd":
            # remove a directory (used to provoke a real chdir launch failure for a later task)
            import shutil
            shutil.rmtree(step[1], ignore_errors=True)
        elif op == "rmout":
            # the command ends by moving its results elsewhere (`mv $COND_OUT ../kept/final`), by deleting its output
            # directory, or by replacing it with a link to where the results really are
            import shutil
            if step[1] == "delete":
                shutil.rmtree(out, ignore_errors=True)
            else:
                kept = os.path.join(os.path.dirname(out), "kept-elsewhere-%d" % os.getpid())
                os.rename(out, kept)
                if step[1] == "replace-with-link":
                    os.symlink(kept, out)
        elif op == "marker":
            with open(os.path.join(out, "DONE"), "w") as f:
                f.write(task)
    if "signal" in script:
        rec("end", code=None, signal=script["signal"])
        try:
            signal.signal(script["signal"], signal.SIG_DFL)
        except (OSError, ValueError):
            pass  # SIGKILL / SIGSTOP cannot be (and need not be) reset
        os.kill(os.getpid(), script["signal"])
        time.sleep(5)
    code = int(script.get("exit", 0))
    rec("end", code=code)
    os._exit(code)


if __name__ == "__main__":
    main()
