"""E1: real kernel, real processes, controlled schedule.

Every task is the probe, blocked on a gate (a FIFO) right after it has logged `start`.  The
controller (running in the harness while the real `cond run` executes) waits until Conductor's
main thread is blocked in the self-pipe read (/proc/<pid>/wchan) and no new `start` arrived -
then the set of gated tasks is exactly what Conductor chose to run concurrently - and releases
tasks by seeded choice (one, several, all; optionally while Conductor is SIGSTOPped so that one
SIGCHLD stands for many exits), or sends SIGINT/SIGTERM.  The recorded history (audit events and
status lines of the Conductor process + probe records, all CLOCK_MONOTONIC) is converted to the
shape the E2 oracles consume."""
import json
import os
import random
import signal
import time

from . import common, cli, gen, realrun, sched, schedsim


def gate_name(task):
    return task.replace("/", "_").replace(":", "_")


def _wchan(pid):
    try:
        with open("/proc/%d/wchan" % pid) as f:
            return f.read().strip()
    except OSError:
        return ""


def _state(pid):
    try:
        with open("/proc/%d/stat" % pid) as f:
            return f.read().rsplit(")", 1)[1].split()[0]
    except (OSError, IndexError):
        return "?"


class Controller:
    def __init__(self, pr, rng, policy, inject=None):
        self.pr = pr
        self.rng = rng
        self.policy = policy
        self.inject = inject  # {"signal": "INT"|"TERM", "after_quiescent": n}
        self.pos = 0
        self.gated = {}      # task -> pid (waiting at the gate)
        self.started = {}
        self.ended = set()
        self.quiescent = []  # snapshots [{"t":..., "gated":[(task, slot)]}]
        self.last_event_t = time.monotonic()
        self.last_start_seen = 0
        self.nstarts = 0
        self.injected = None
        self.nq = 0
        self.stopped = False
        self.batches = 0
        self.stall = None

    def _read(self):
        try:
            with open(self.pr.log) as f:
                f.seek(self.pos)
                data = f.read()
                # only whole lines
                if not data.endswith("\n"):
                    data = data[:data.rfind("\n") + 1] if "\n" in data else ""
                self.pos += len(data.encode())
        except OSError:
            return
        for line in data.splitlines():
            try:
                e = json.loads(line)
            except ValueError:
                continue
            self.last_event_t = time.monotonic()
            if e["kind"] == "start":
                self.started[e["task"]] = e
                self.nstarts += 1
            elif e["kind"] == "gated":
                self.gated[e["task"]] = e["pid"]
            elif e["kind"] in ("end", "term"):
                self.ended.add(e["task"])
                self.gated.pop(e["task"], None)

    def _release(self, task):
        p = os.path.join(self.pr.gates, gate_name(task))
        try:
            fd = os.open(p, os.O_WRONLY | os.O_NONBLOCK)
        except OSError:
            return False  # the probe has not opened its end yet
        os.close(fd)
        self.gated.pop(task, None)
        return True

    def poll(self, pid):
        self._read()
        if not self.gated:
            return
        if "pipe" not in _wchan(pid):
            return
        # quiescent only if no start arrived since the previous poll
        if self.nstarts != self.last_start_seen:
            self.last_start_seen = self.nstarts
            return
        # every started-but-not-ended task must have reached its gate
        waiting = [t for t in self.started if t not in self.ended]
        if any(t not in self.gated for t in waiting):
            return
        self.nq += 1
        snap = [(t, self.started[t]["env"].get("COND_SLOT")) for t in sorted(self.gated)]
        self.quiescent.append({"t": time.monotonic_ns(), "gated": snap})
        if self.inject and self.injected is None and self.nq > self.inject.get("after_quiescent", 0):
            sig = signal.SIGINT if self.inject["signal"] == "INT" else signal.SIGTERM
            self.injected = {"t": time.monotonic_ns(), "live": sorted(self.gated), "signal": self.inject["signal"]}
            os.kill(pid, sig)
            self.gated = {}
            return
        g = sorted(self.gated)
        pol = self.policy
        if pol == "fifo":
            rel = g[:1]
        elif pol == "lifo":
            rel = g[-1:]
        elif pol == "all":
            rel = g
        elif pol == "random-one":
            rel = [self.rng.choice(g)]
        elif pol == "stop-batch":
            rel = g if len(g) <= 2 else self.rng.sample(g, self.rng.randint(2, len(g)))
        else:
            k = self.rng.randint(1, len(g))
            rel = self.rng.sample(g, k)
        if pol == "stop-batch" and len(rel) > 1:
            # one SIGCHLD for many exits: freeze Conductor, let the chosen tasks die, thaw
            os.kill(pid, signal.SIGSTOP)
            pids = [self.gated[t] for t in rel]
            for t in rel:
                for _ in range(200):
                    if self._release(t):
                        break
                    time.sleep(0.002)
            t0 = time.monotonic()
            while time.monotonic() - t0 < 3 and any(_state(p) not in ("Z", "?") for p in pids):
                time.sleep(0.002)
            self.batches += 1
            os.kill(pid, signal.SIGCONT)
        else:
            for t in rel:
                self._release(t)
        self.last_start_seen = self.nstarts


def run_e1(case, scratch_root, props, inject=None):
    """case as in sched.gen_cases (single invocation is used: the last of the history; earlier ones
    run un-gated to create cache state).  Returns (tb, recs) shaped like sched.run_case()."""
    tasks = [gen.Task(t) for t in case["tasks"]]
    hist = case["history"]
    scripts = {}
    for t in tasks:
        if t["kind"] in gen.PROC_KINDS:
            scripts[t["id"]] = {"steps": [["file", "o", realrun.b64(b"x")]]}
    if len(hist) == 1:
        # real launch failure: a command line longer than MAX_ARG_STRLEN makes execve fail with E2BIG
        for t in tasks:
            if t["kind"] in gen.PROC_KINDS and hist[0].get("script", {}).get(t["id"], {}).get("launch_fail"):
                t["raw_run"] = True
                t["run"] = "true " + "x" * 140000
    pr = realrun.Project(scratch_root, tasks, scripts)
    tb = pr.tb
    recs = []
    for hi, inv in enumerate(hist):
        last = hi == len(hist) - 1
        # scripts for this invocation
        pr.scripts = {}
        for t in tasks:
            if t["kind"] not in gen.PROC_KINDS:
                continue
            s = dict(inv.get("script", {}).get(t["id"], {}))
            steps = [["file", "o", realrun.b64(b"x")]]
            if last:
                steps.append(["gate"])
                p = os.path.join(pr.gates, gate_name(t["id"]))
                if not os.path.exists(p):
                    os.mkfifo(p)
            entry = {"steps": steps}
            if "exit" in s:
                entry["exit"] = s["exit"] & 0xFF
            if "signal" in s:
                entry["signal"] = s["signal"]
            pr.scripts[t["id"]] = entry
        pr.write_scn()
        rows_before = pr.rows()
        argv = ["run", inv["target"]]
        if inv.get("jobs") is not None:
            argv += ["-j", str(inv["jobs"])]
        if inv.get("again"):
            argv.append("--again")
        if inv.get("stop_early"):
            argv.append("--stop-early")
        audit = os.path.join(scratch_root, "audit-%d.jsonl" % hi)
        slog = os.path.join(scratch_root, "stdout-%d.jsonl" % hi)
        pr.events(new_only=True)
        ctl = None
        kw = {"audit": audit, "stdout_log": slog}
        if inv.get("outer_env"):
            kw["env_extra"] = dict(inv["outer_env"])
        if inv.get("proc"):
            kw["proc"] = inv["proc"]
        if last:
            ctl = Controller(pr, random.Random(inv.get("seed", 0)), case.get("e1_policy", "random-some"), inject)
            ctl.pos = pr._pos
            kw["poll"] = ctl.poll
            if case.get("outer_env"):
                kw["env_extra"] = dict(kw.get("env_extra") or {}, **case["outer_env"])
            if inv.get("unrelated"):
                kw["prefork"] = [(random.Random(inv.get("seed", 0) + i).randint(20, 400), (u.get("exit", 0) if "exit" in u else 9)) for i, u in enumerate(inv["unrelated"])]
        r = pr.cond(argv, timeout=inv.get("timeout", 60), **kw)
        evs = pr.events(new_only=True)
        executed, cached = sched.plan_model(tb, inv["target"], rows_before if isinstance(rows_before, list) else [], inv.get("again", False))
        launch_fail = {}
        failed, skipped = sched.outcome_model(tb, executed, inv.get("script", {}))
        rec = {"inv": inv, "argv": argv, "kind": "timeout" if r["timed_out"] else "ok", "err": None, "rows_before": rows_before, "rows_after": pr.rows(),
               "executed": executed, "cached": cached, "failed": sorted(failed), "skipped": sorted(skipped), "e1": True, "cli": cli.brief(r, 1500)}
        # ---- convert to the E2 result shape
        log = []
        if os.path.exists(slog):
            for line in open(slog):
                try:
                    d = json.loads(line)
                except ValueError:
                    continue
                log.append([d["t"], d["stream"], {"text": d["text"]}])
        popens = {}
        kills = []
        if os.path.exists(audit):
            for line in open(audit):
                try:
                    a = json.loads(line)
                except ValueError:
                    continue
                if a["ev"] == "subprocess.Popen" and a.get("cond_env", {}).get("COND_OUT"):
                    co = a["cond_env"]["COND_OUT"]
                    popens.setdefault(co, []).append(a["t"])
                    log.append([a["t"], "popen", {"cond_out": co, "slot": a["cond_env"].get("COND_SLOT")}])
                elif a["ev"] in ("os.killpg", "os.kill"):
                    kills.append(a)
                    log.append([a["t"], "kill", {"pgid": a["args"][0], "sig": a["args"][1]}])
                elif a["ev"] in ("os.symlink", "os.mkdir") and a.get("main"):
                    log.append([a["t"], "fs", {"op": a["ev"], "path": a["args"][0] if a["ev"] == "os.mkdir" else a["args"][1]}])
        procs = []
        by_pid = {}
        for e in evs:
            if e["kind"] == "start":
                co = e["env"].get("COND_OUT")
                tp = popens.get(co, [None])
                p = {"pid": e["pid"], "task": e["task"], "state": "running", "status": None, "t_spawn": tp[0] if tp[0] is not None else e["t"], "t_start": e["t"], "t_exit": None,
                     "t_reap": None, "reaped_by": -1, "signals": [], "slot": e["env"].get("COND_SLOT"), "cond_env": e["env"], "cwd": e["cwd"], "argv": e["argv"], "termed": False}
                procs.append(p)
                by_pid[e["pid"]] = p
                log.append([e["t"], "spawn", {"pid": e["pid"], "task": e["task"], "slot": p["slot"]}])
            elif e["kind"] == "end" and e["pid"] in by_pid:
                p = by_pid[e["pid"]]
                p["t_exit"] = e["t"]
                p["state"] = "reaped"
                p["status"] = (e["code"] << 8) if e.get("code") is not None else int(e.get("signal", 0))
                log.append([e["t"], "exit", {"pid": e["pid"], "task": e["task"], "status": p["status"]}])
            elif e["kind"] == "term" and e["pid"] in by_pid:
                p = by_pid[e["pid"]]
                p["termed"] = True
                p["signals"].append(15)
                p["t_exit"] = e["t"]
                p["state"] = "reaped"
                p["status"] = 15
        # SIGTERMs Conductor sent (pgid == pid of the bash/probe process)
        for a in kills:
            p = by_pid.get(a["args"][0])
            if p is not None and 15 not in p["signals"] and a["args"][1] == 15:
                p["signals"].append(15)
        for p in procs:
            if p["state"] == "running" and not os.path.exists("/proc/%d" % p["pid"]):
                p["state"] = "reaped"  # died without an end record (killed)
                p["status"] = p["status"] if p["status"] is not None else 15
        log.sort(key=lambda x: x[0])
        result = {"exit": r.code, "exception": None}
        if "Traceback" in r.err and os.path.join(common.SRC, "conductor") in r.err:  # Conductor's own, not a task's
            result["exception"] = "Traceback"
            result["traceback"] = r.err[-1500:]
        log.append([time.monotonic_ns(), "return", result])
        rec["res"] = {"result": result, "log": log, "procs": procs, "rows": rec["rows_after"], "uninterposed": [], "lines": {"n": 0},
                      "stats": {"states": [], "sigchld": 0, "max_batch": 0, "lost_candidates": 0, "steps": 0, "wall": r["wall"]}, "strategy": "e1:" + case.get("e1_policy", "")}
        rec["controller"] = None if ctl is None else {"quiescent": ctl.quiescent, "injected": ctl.injected, "batches": ctl.batches}
        rec["stderr"] = r.err
        recs.append(rec)
        # leftover probes (e.g. after an abort) must not outlive the case
        for p in procs:
            if os.path.exists("/proc/%d" % p["pid"]):
                try:
                    os.kill(p["pid"], signal.SIGKILL)
                except OSError:
                    pass
    return pr, tb, recs


def oracle_c01_e1(case, tb, rec, out):
    """probe intervals are inside the true execution intervals: measured overlap => real overlap;
    correct code reaps D before it spawns X, so end(D) < start(X) always holds for correct code"""
    if rec["kind"] != "ok":
        return
    ex = set(rec["executed"])
    anc = gen.ancestors_map({k: dict(v, deps=[d for d in v["deps"] if d in ex]) for k, v in tb.items() if k in ex})
    iv = {}
    for p in rec["res"]["procs"]:
        iv.setdefault(p["task"], []).append((p["t_start"], p["t_exit"] if p["t_exit"] is not None else float("inf"), p["status"]))
    for x, lst in iv.items():
        if x not in anc:
            continue
        for (a, b, st) in lst:
            for d in anc[x]:
                if d not in iv:
                    continue
                out["reach"]["c01_e1_dep_pairs"] = out["reach"].get("c01_e1_dep_pairs", 0) + 1
                if not any(db < a and s0 == 0 for (da, db, s0) in iv[d]):
                    out["violations"].append({"key": "C01:dependent-started-before-dependency-exited-0", "msg": "[real processes] %s started before its dependency %s had exited 0 (executions of it: %s)" % (x, d, iv[d]),
                                              "witness": sched.witness(case, rec, {"engine": "E1"})})
                    return
                for (da, db, s0) in iv[d]:
                    if not (db < a or da > b):
                        out["violations"].append({"key": "C01:dependency-and-dependent-overlap", "msg": "[real processes] %s and its dependent %s ran at the same time" % (d, x), "witness": sched.witness(case, rec, {"engine": "E1"})})
                        return


def oracle_c04_e1(case, tb, rec, out):
    if rec["kind"] != "ok" or not rec.get("controller"):
        return
    jobs = rec["inv"].get("jobs") or 1
    W = lambda: sched.witness(case, rec, {"engine": "E1", "quiescent": rec["controller"]["quiescent"][:20]})
    for p in rec["res"]["procs"]:
        if p["task"] not in tb:
            continue
        par, slot = tb[p["task"]]["par"], p["slot"]
        out["reach"]["c04_e1_env_checks"] = out["reach"].get("c04_e1_env_checks", 0) + 1
        if par and jobs > 1:
            if slot is None or not slot.isdigit() or not (0 <= int(slot) < jobs):
                out["violations"].append({"key": "C04:slot-missing-for-parallel-task" if slot is None else "C04:slot-out-of-range", "msg": "[real processes] %s (jobs=%d) got COND_SLOT=%r" % (p["task"], jobs, slot), "witness": W()})
                return
        elif slot is not None:
            out["violations"].append({"key": "C04:slot-set-for-sequential-task", "msg": "[real processes] %s (parallelizable=%s, jobs=%d) got COND_SLOT=%r" % (p["task"], par, jobs, slot), "witness": W()})
            return
    for q in rec["controller"]["quiescent"]:
        g = q["gated"]
        out["reach"]["c04_e1_quiescent_points"] = out["reach"].get("c04_e1_quiescent_points", 0) + 1
        out["sets"].setdefault("c04_e1_concurrency", set()).add("jobs=%d running=%d" % (jobs, len(g)))
        if len(g) > jobs:
            out["violations"].append({"key": "C04:more-than-jobs-running", "msg": "[real processes] %d tasks held running at once with --jobs %d: %s" % (len(g), jobs, g), "witness": W()})
            return
        if len(g) > 1:
            seq = [t for t, s in g if not tb[t]["par"]]
            if seq:
                out["violations"].append({"key": "C04:sequential-task-ran-concurrently", "msg": "[real processes] non-parallelizable %s running together with %s" % (seq, g), "witness": W()})
                return
            slots = [s for t, s in g]
            if len(set(slots)) != len(slots):
                out["violations"].append({"key": "C04:duplicate-slot-among-concurrent-tasks", "msg": "[real processes] concurrent tasks share a slot: %s" % g, "witness": W()})
                return


def oracle_c09_e1(case, tb, rec, out):
    if rec["kind"] == "timeout":
        # blocked although every started probe has ended?  (lost completion)  otherwise inconclusive
        procs = rec["res"]["procs"] if rec.get("res") else []
        if procs and all(p["t_exit"] is not None for p in procs):
            out["violations"].append({"key": "C09:run-blocks-forever-with-no-running-task", "msg": "[real processes] cond run did not return although every started task had ended", "witness": sched.witness(case, rec, {"engine": "E1"})})
        else:
            out["inconclusive"].append({"why": "E1 wall-clock watchdog", "detail": rec.get("cli")})
        return
    sched.oracle_c09(case, tb, rec, out)
    if rec.get("controller") and rec["controller"]["batches"]:
        out["reach"]["c09_e1_sigstop_batches"] = out["reach"].get("c09_e1_sigstop_batches", 0) + rec["controller"]["batches"]


E1_ORACLES = {"C01": oracle_c01_e1, "C02": sched.oracle_c02, "C03": sched.oracle_c03, "C04": oracle_c04_e1, "C09": oracle_c09_e1}


def eval_case(arg):
    case, props = arg
    cli.warm()
    out = {"sig": None, "nontrivial": True, "reach": {}, "violations": [], "inconclusive": [], "sets": {}}
    with common.Scratch("cve1") as sc:
        pr, tb, recs = run_e1(case, sc.root, props)
        rec = recs[-1]
        for pr_ in props:
            E1_ORACLES[pr_](case, tb, rec, out)
        out["reach"]["e1_runs"] = 1
        out["reach"]["e1_real_task_processes"] = len(rec["res"]["procs"])
        out["reach"]["e1_quiescent_points"] = len(rec["controller"]["quiescent"]) if rec.get("controller") else 0
        order = [(k, d.get("task")) for t, k, d in rec["res"]["log"] if k in ("spawn", "exit")]
        names, sig = {}, []
        for k, t in order:
            names.setdefault(t, len(names))
            sig.append("%s%d" % (k[0], names[t]))
        out["sets"].setdefault("e1_interleavings", set()).add(common.short_hash(sig))
        out["sig"] = "e1-" + common.short_hash([[(t["kind"], t["par"], sorted(t["deps"])) for t in case["tasks"]], case["history"], sig])
        out["nontrivial"] = len(rec["executed"]) >= 2
        out["sets"] = {k: sorted(v) for k, v in out["sets"].items()}
        out["sample"] = {"engine": "E1", "family": case.get("family"), "policy": case.get("e1_policy"), "history": case["history"][-1:],
                         "quiescent": (rec["controller"]["quiescent"][:5] if rec.get("controller") else None), "cli": rec["cli"]["stdout"][-400:]}
        out["violations"] = out["violations"][:2]
    return out


POLICIES = ["fifo", "lifo", "all", "random-one", "random-some", "random-some", "stop-batch", "stop-batch"]


def gen_cases(seed, n, focus, max_tasks=7):
    rng = common.rng_for("e1", seed, focus)
    cases = sched.gen_cases(seed + 77, n, focus, ["blocked-fifo"], max_tasks)
    if focus == "live":
        # dedicated family: wide parallel fans under -j>=3 released in SIGSTOP batches (one SIGCHLD, many exits)
        for i in range(max(4, n // 3)):
            k = rng.randint(3, 6)
            fan = [gen.mk_task(rng.choice(["", "a"]), "w%d" % j, rng.choice(["run_command", "run_experiment"]), par=True) for j in range(k)]
            top = gen.mk_task("", "top", rng.choice(["group", "combine"]), [t["id"] for t in fan])
            cases[i] = {"family": "e1-fan", "tasks": gen.dump(fan + [top]), "history": [{"target": "//:top", "jobs": rng.choice([3, 4, 6]), "again": False, "stop_early": False, "script": {}, "strategy": "blocked-fifo", "seed": rng.randrange(1 << 30)}],
                        "e1_policy_forced": "stop-batch"}
    for c in cases:
        for inv in c["history"]:
            inv.pop("retype", None)  # E1 runs one fixed set of COND files
        c["e1_policy"] = c.pop("e1_policy_forced", None) or rng.choice(POLICIES)
        if rng.random() < 0.3:
            # cond started from inside another Conductor task (nested invocation): COND_* already set
            c["outer_env"] = {"COND_SLOT": str(rng.choice([0, 3, 7])), "COND_NAME": "outer", "COND_OUT": "/outer/x.task", "COND_DEPS": ""}
        for inv in c["history"]:
            # real faults only: exit codes and signals (launch failures are E2's)
            for k in list(inv.get("script", {})):
                if "launch_fail" in inv["script"][k] and len(c["history"]) > 1:
                    inv["script"][k] = {"exit": 9}
    return cases


# --------------------------------------------------------------------------------------------
# C16 on the real kernel: real SIGINT/SIGTERM at controller-chosen quiescent states (tasks held in
# flight at their gates) and at random offsets during launch bursts of un-gated long-sleeping tasks
# --------------------------------------------------------------------------------------------

def _live_task_pids(scn_path):
    needle = scn_path.encode()
    pids = []
    for d in os.listdir("/proc"):
        if d.isdigit():
            try:
                with open("/proc/%s/cmdline" % d, "rb") as f:
                    if needle in f.read():
                        pids.append(int(d))
            except OSError:
                pass
    return pids


def eval_abort_case(case):
    """case: {tasks, target, jobs, mode: gated|burst, signal, after_quiescent | delay}"""
    cli.warm()
    out = {"sig": "e1abort-" + common.short_hash(case), "nontrivial": False, "reach": {}, "violations": [], "inconclusive": [], "sets": {}}
    with common.Scratch("cve1a") as sc:
        tasks = [gen.Task(t) for t in case["tasks"]]
        scripts = {}
        for t in tasks:
            if t["kind"] in gen.PROC_KINDS:
                steps = [["file", "o", realrun.b64(b"x")]]
                if case["mode"] == "gated":
                    steps.append(["gate"])
                else:
                    steps.append(["sleep", case.get("sleep_ms", 1500)])
                scripts[t["id"]] = {"steps": steps}
        pr = realrun.Project(sc.root, tasks, scripts)
        for t in tasks:
            if t["kind"] in gen.PROC_KINDS and case["mode"] == "gated":
                os.mkfifo(os.path.join(pr.gates, gate_name(t["id"])))
        argv = ["run", case["target"]] + (["-j", str(case["jobs"])] if case.get("jobs") else [])
        audit = os.path.join(sc.root, "audit.jsonl")
        sig = signal.SIGINT if case["signal"] == "INT" else signal.SIGTERM
        state = {"sent": None}
        if case["mode"] == "gated":
            ctl = Controller(pr, random.Random(case.get("seed", 0)), "random-one", {"signal": case["signal"], "after_quiescent": case["after_quiescent"]})
            poll = ctl.poll
        else:
            ctl = None
            first = {"t": None}

            def poll(pid):
                # signals that arrive before register_signal_handlers() are outside the claim: wait
                # until the first task has started (Conductor is inside run_plan), then a random delay
                if state["sent"] is not None:
                    return
                if first["t"] is None:
                    try:
                        if os.path.getsize(pr.log) > 0:
                            first["t"] = time.monotonic()
                    except OSError:
                        pass
                    return
                if time.monotonic() - first["t"] >= case["delay"]:
                    state["sent"] = time.monotonic_ns()
                    os.kill(pid, sig)

        r = pr.cond(argv, timeout=40, audit=audit, poll=poll, inherit_ignored=bool(case.get("inherit_ignored")))
        t_exit = time.monotonic_ns()
        sent = (ctl.injected is not None) if ctl else (state["sent"] is not None and not r["timed_out"])
        kills = []
        try:
            for line in open(audit):
                a = json.loads(line)
                if a["ev"] in ("os.killpg", "os.kill", "subprocess.Popen"):
                    kills.append([a["t"], a["ev"], a["args"][:2] if a["ev"] != "subprocess.Popen" else a.get("cond_env", {}).get("COND_OUT")])
        except (OSError, ValueError):
            pass
        W = {"engine": "E1", "case": case, "argv": argv, "result": cli.brief(r, 1200), "injected": ctl.injected if ctl else state["sent"], "conductor_side_events": kills[-40:],
             "probe_events": [{k: e.get(k) for k in ("kind", "task", "pid", "t", "code")} for e in pr.events()][-40:]}
        if r["timed_out"]:
            out["inconclusive"].append({"why": "E1 abort run timed out", "detail": cli.brief(r)})
        elif not sent or (r.code == 0 and "aborted" not in r.err and case["mode"] == "burst" and "Done!" in r.out and state["sent"] and False):
            out["reach"]["c16_e1_signal_not_delivered_in_time"] = 1
        else:
            out["nontrivial"] = True
            out["reach"]["c16_e1_real_signals"] = 1
            # let terminated probes write their records; anything still alive later was left running
            time.sleep(0.25)
            evs = pr.events()
            starts = {e["pid"]: e for e in evs if e["kind"] == "start"}
            terms = {e["pid"] for e in evs if e["kind"] == "term"}
            ends = {e["pid"]: e for e in evs if e["kind"] == "end"}
            alive = set(_live_task_pids(pr.scn_path))
            finished_before_signal = lambda pid: pid in ends and ends[pid]["t"] < ((ctl.injected["t"] if ctl else state["sent"]) or 0)
            live_at_signal = [p for p in starts if not finished_before_signal(p)]
            out["reach"]["c16_e1_tasks_in_flight_at_signal"] = len(live_at_signal)
            if live_at_signal:
                out["reach"]["c16_e1_signals_with_tasks_in_flight"] = 1
            if r.code == 0 and "Done!" in r.out and not live_at_signal:
                pass  # the signal arrived when everything was over
            elif os.path.join(common.SRC, "conductor") in r.err and "Traceback" in r.err and "Exception ignored" not in r.err:
                out["violations"].append({"key": "C16:internal-error-instead-of-abort", "msg": "[real signal] %s: cond run ended with a traceback\n%s" % (case["signal"], r.err[-800:]), "witness": W})
            elif r.code == 0:
                out["violations"].append({"key": "C16:exit-0-after-abort", "msg": "[real signal] %s with %d task(s) in flight: cond run exited 0" % (case["signal"], len(live_at_signal)), "witness": W})
            elif "aborted" not in r.err:
                out["violations"].append({"key": "C16:abort-not-reported", "msg": "[real signal] exit %s, stderr %r" % (r.code, r.err[-300:]), "witness": W})
            sent_term = {k0[2][0] for k0 in kills if k0[1] in ("os.killpg", "os.kill") and isinstance(k0[2], list) and len(k0[2]) > 1 and k0[2][1] == 15}
            for pid in live_at_signal:
                out["reach"]["c16_e1_child_checks"] = out["reach"].get("c16_e1_child_checks", 0) + 1
                if pid in terms or pid in sent_term:
                    # the task logged the SIGTERM, or Conductor's own audit trail shows killpg(pid, SIGTERM)
                    # (each task is its own process-group leader) - what the task then does is its business
                    continue
                if pid in alive or (pid in ends and ends[pid]["t"] > t_exit):
                    out["violations"].append({"key": "C16:running-task-not-sent-SIGTERM", "msg": "[real signal] task %s (pid %d) was started, never received SIGTERM and was still running after cond run returned" % (starts[pid]["task"], pid), "witness": W})
                    break
            rows = pr.rows()
            if isinstance(rows, list):
                ok = {starts[p]["env"].get("COND_OUT") for p in ends if ends[p].get("code") == 0 and p in starts}
                for row in rows:
                    out["reach"]["c16_e1_row_checks"] = out["reach"].get("c16_e1_row_checks", 0) + 1
                    if pr.out_dir(row[0], row[1]) not in ok:
                        out["violations"].append({"key": "C16:version-recorded-for-unfinished-task", "msg": "[real signal] row %s recorded although that execution had not exited 0" % row, "witness": W})
        for pid in _live_task_pids(pr.scn_path):
            try:
                os.kill(pid, signal.SIGKILL)
            except OSError:
                pass
        out["sample"] = {"engine": "E1", "mode": case["mode"], "signal": case["signal"], "exit": r.code, "stderr": r.err[-200:]}
        out["violations"] = out["violations"][:2]
    return out


def gen_abort_cases(seed, n):
    rng = common.rng_for("e1abort", seed)
    cases = []
    for i in range(n):
        nt = rng.randint(2, 7)
        par_p = rng.choice([0.0, 1.0, 1.0, 0.7])
        tasks = gen.rand_dag(rng, nt, p_edge=rng.choice([0.0, 0.2, 0.4]), kinds={"run_command": 3, "run_experiment": 3, "group": 1}, pkgs=rng.choice([[""], ["", "a"]]), par_p=par_p)
        top = gen.mk_task("", "top", "group", [t["id"] for t in tasks])
        tasks.append(top)
        mode = rng.choice(["gated", "gated", "burst"])
        c = {"tasks": gen.dump(tasks), "target": "//:top", "jobs": rng.choice([None, 2, 3, 4, 8]), "mode": mode, "signal": rng.choice(["INT", "TERM"]), "seed": rng.randrange(1 << 30)}
        c["inherit_ignored"] = rng.random() < 0.25
        if mode == "gated":
            c["after_quiescent"] = rng.choice([0, 0, 1, 2])
        else:
            c["delay"] = rng.uniform(0.0, 0.25)
            c["sleep_ms"] = 1500
        cases.append(c)
    return cases


# --------------------------------------------------------------------------------------------
# C09 soak on the real kernel: many near-instant tasks under -j, several Conductors at once.
# Bounded-progress predicate: main thread blocked in the self-pipe read while the process has no
# children at all is a state Conductor can never leave (no child => no SIGCHLD => no pipe byte).
# --------------------------------------------------------------------------------------------

def _children(pid):
    try:
        with open("/proc/%d/task/%d/children" % (pid, pid)) as f:
            return f.read().split()
    except OSError:
        return None


def soak_case(case):
    cli.warm()
    out = {"sig": "soak-" + common.short_hash(case), "nontrivial": True, "reach": {}, "violations": [], "inconclusive": [], "sets": {}}
    rng = random.Random(case["seed"])
    with common.Scratch("cvsoak") as sc:
        n = case["ntasks"]
        tasks = []
        for i in range(n):
            deps = []
            if i and rng.random() < case.get("p_dep", 0.1):
                deps = [tasks[rng.randrange(len(tasks))]["id"]]
            t = gen.mk_task("", "s%d" % i, "run_command", deps, par=rng.random() < case.get("par_p", 1.0), run=rng.choice(["true", "true", ":", "exit 0", "echo -n"]))
            t["raw_run"] = True
            tasks.append(t)
        tasks.append(gen.mk_task("", "all", "group", [t["id"] for t in tasks]))
        pr = realrun.Project(sc.root, tasks, {})
        stuck = {"since": None, "hit": False}

        def poll(pid):
            ch = _children(pid)
            if ch is not None and not ch and "pipe" in _wchan(pid):
                if stuck["since"] is None:
                    stuck["since"] = time.monotonic()
                elif time.monotonic() - stuck["since"] > 1.5:
                    stuck["hit"] = True
                    try:
                        os.kill(pid, signal.SIGKILL)
                    except OSError:
                        pass
            else:
                stuck["since"] = None

        if case.get("pin"):
            try:
                os.sched_setaffinity(0, set(case["pin"]))
            except OSError:
                pass
        r = pr.cond(["run", "//:all", "-j", str(case["jobs"])], timeout=120, poll=poll)
        out["reach"]["c09_soak_runs"] = 1
        out["reach"]["c09_soak_task_completions"] = r.out.count("completed successfully")
        W = {"engine": "E1-soak", "case": case, "result": cli.brief(r, 600)}
        if stuck["hit"]:
            out["violations"].append({"key": "C09:run-blocks-forever-with-no-running-task", "msg": "[real processes] cond run -j%d of %d instant tasks sat in the self-pipe read with no child process left (%d of %d tasks reported complete)" % (case["jobs"], n, r.out.count("completed successfully") , n + 1), "witness": W})
        elif r["timed_out"]:
            out["inconclusive"].append({"why": "soak watchdog", "detail": cli.brief(r, 300)})
        elif r.code != 0 or r.out.count("completed successfully") != n + 1:
            out["violations"].append({"key": "C09:task-without-exactly-one-outcome", "msg": "[real processes] soak: exit %s, %d of %d tasks reported complete" % (r.code, r.out.count("completed successfully"), n + 1), "witness": W})
        out["sample"] = {"engine": "E1-soak", "ntasks": n, "jobs": case["jobs"], "exit": r.code, "wall": round(r["wall"], 2)}
    return out
