"""Runs one real `cond <argv>` in-process over the interposed kernel (E2) and returns the
history: kernel events, Conductor's own stdout/stderr writes and file-system audit events, all
on one logical clock.  Call run_invocation() only inside a single-use forked process."""
import io
import os
import random
import signal
import sqlite3
import sys
import threading
import time
import traceback

from . import common
from .fakekernel import Kernel, Deadlock, WatchdogFired

STRATEGIES = {
    # exits only when Conductor blocks: pure control of completion order
    "blocked-fifo": {"order": "fifo", "batch": "one"},
    "blocked-lifo": {"order": "lifo", "batch": "one"},
    "blocked-random": {"order": "random", "batch": "one"},
    "blocked-batch2": {"order": "random", "batch": "two"},
    "blocked-all": {"order": "random", "batch": "all"},
    "blocked-randbatch": {"order": "random", "batch": "rand"},
    # exits at arbitrary kernel entries
    "anywhere": {"order": "random", "batch": "rand", "p_exit": {"*": 0.3}},
    "eager": {"order": "fifo", "batch": "all", "p_exit": {"*": 1.0}},
    "in-fork": {"order": "random", "batch": "one", "p_exit": {"in_fork": 1.0}},
    "in-fork-some": {"order": "random", "batch": "rand", "p_exit": {"in_fork": 0.5, "*": 0.1}},
    # the schedule the Popen-reaper race needs: the child dies right when someone polls it by pid
    "at-waitpid-pid": {"order": "random", "batch": "one", "target_waitpid_pid": True},
    "at-waitpid-pid-some": {"order": "random", "batch": "rand", "target_waitpid_pid": True, "p_exit": {"*": 0.05}},
    "starve": {"order": "random", "batch": "one", "starve_first": True},
    # the child exits in the window between the interpreter's last signal check and the blocking read()
    # system call: the C-level handler runs, the system call is not interrupted (no EINTR)
    "race-read": {"order": "random", "batch": "one", "p_exit": {"read": 1.0}, "p_race_read": 1.0},
    "race-read-some": {"order": "random", "batch": "rand", "p_exit": {"read": 0.5, "*": 0.05}, "p_race_read": 0.5},
    # exits + SIGCHLD at line boundaries of Conductor's own code (needs line monitoring)
    "lines": {"order": "random", "batch": "rand", "p_line": 0.05, "p_exit": {"line": 0.5, "*": 0.05}},
    "lines-dense": {"order": "random", "batch": "one", "p_line": 0.5, "p_exit": {"line": 0.7}},
}
LINE_STRATEGIES = ("lines", "lines-dense")


class LoggedStream(io.TextIOBase):
    """Replaces sys.stdout / sys.stderr: every write lands in the kernel log (one clock)."""

    class _Buf:
        def __init__(self, outer):
            self.o = outer

        def write(self, b):
            self.o._k.ev(self.o._name + "_bytes", data=bytes(b).decode("utf-8", "replace"), thread=threading.get_ident() != self.o._k.main_ident)
            return len(b)

        def flush(self):
            pass

    def __init__(self, kernel, name):
        super().__init__()
        self._k = kernel
        self._name = name
        self.buffer = LoggedStream._Buf(self)

    def writable(self):
        return True

    @property
    def encoding(self):
        return "utf-8"

    def write(self, s):
        if s:
            if self._name == "stdout" and getattr(self._k, "stdout_broken", False):
                # the reader of Conductor's stdout is gone (`cond run | tee`, Ctrl-C kills tee first)
                self._k.ev("stdout_epipe", text=s[:40])
                raise BrokenPipeError(32, "Broken pipe")
            self._k.ev(self._name, text=s)
        return len(s)

    def flush(self):
        pass

    def isatty(self):
        return False

    def fileno(self):
        raise io.UnsupportedOperation("fileno")


def default_ident(root):
    out_root = os.path.realpath(os.path.join(root, "cond-out"))
    real_root = os.path.realpath(root)

    def ident(env, cwd, argv):
        out = env.get("COND_OUT", "")
        try:
            rel = os.path.relpath(os.path.realpath(out), out_root)
        except ValueError:
            rel = out
        pkg, leaf = os.path.split(rel)
        name = leaf.split(".task")[0]
        return "//%s:%s" % (pkg, name)

    return ident


def run_invocation(spec):
    """spec: root, cwd (rel), argv (list after `cond`), script {task: {...}}, strategy (name),
    seed, inject {signal: INT|TERM, at_line: k, scope}, count_lines (bool), sample_states (bool)"""
    common.import_repo()
    root = spec["root"]
    os.chdir(os.path.join(root, spec.get("cwd", "")))
    for k in [k for k in os.environ if k.startswith("COND_")]:
        del os.environ[k]
    # as if `cond` were started from inside a task of an enclosing Conductor run
    os.environ.update(spec.get("outer_env") or {})
    if (spec.get("proc") or {}).get("block_sigchld"):
        # started by a process that keeps SIGCHLD blocked: the mask is inherited across fork and exec
        signal.pthread_sigmask(signal.SIG_BLOCK, {signal.SIGCHLD})
    if (spec.get("proc") or {}).get("one_cpu"):
        # pinned to one CPU (taskset / cpuset / container)
        try:
            cpus = sorted(os.sched_getaffinity(0))
            os.sched_setaffinity(0, {cpus[spec["proc"].get("cpu_index", 0) % len(cpus)]})
        except (OSError, AttributeError):
            pass
    rng = random.Random(spec.get("seed", 0))
    sname = spec.get("strategy", "blocked-fifo")
    strategy = dict(STRATEGIES[sname])
    script = spec.get("script", {})
    kernel = Kernel(rng, strategy, lambda t: script.get(t, {}), default_ident(root))
    kernel.install()
    if spec.get("unrelated"):
        kernel.add_unrelated(spec["unrelated"])

    fs_events = ("os.symlink", "os.mkdir", "os.rmdir", "os.remove", "os.rename", "shutil.rmtree", "shutil.copytree", "os.unlink")
    main_ident = threading.get_ident()

    def audit(event, args):
        if event in fs_events and threading.get_ident() == main_ident:
            try:
                kernel.ev("fs", op=event, path=os.fsdecode(args[0]) if args and isinstance(args[0], (str, bytes, os.PathLike)) else repr(args[0]) if args else None)
            except Exception:
                pass
        elif event in ("os.fork", "os.posix_spawn", "os.forkpty"):
            kernel.uninterposed.append(event)

    sys.addaudithook(audit)

    inject = spec.get("inject")
    lines = {"n": 0, "armed": 0, "site": None, "fired": False, "sites": {}}
    want_lines = bool(inject) or sname in LINE_STRATEGIES or spec.get("count_lines")
    src_prefix = os.path.realpath(os.path.join(common.SRC, "conductor")) + os.sep
    scope_sub = bool(inject and inject.get("scope") == "conductor+subprocess")
    sub_file = os.path.realpath(__import__("subprocess").__file__)
    mon = sys.monitoring
    TOOL = 4
    sig_by_name = {"INT": signal.SIGINT, "TERM": signal.SIGTERM}

    def site_name(fn, line):
        if fn.startswith(src_prefix):
            return fn[len(src_prefix):] + ":" + str(line)
        return ("cond-file-statement" if fn == "<string>" else "subprocess.py") + ":" + str(line)

    def on_line(code, line):
        fn = code.co_filename
        # "<string>": the statements of COND files and of the files they include(), which Conductor exec()s
        if not (fn.startswith(src_prefix) or fn == "<string>" or (scope_sub and fn == sub_file)):
            return mon.DISABLE
        if threading.get_ident() != main_ident:
            return None
        # only once Conductor has installed its own abort handlers
        h = signal.getsignal(signal.SIGINT)
        if h is signal.default_int_handler or not callable(h):
            return None
        lines["n"] += 1
        if spec.get("count_lines"):
            site = site_name(fn, line)
            lines["sites"].setdefault(site, []).append(lines["n"])
        if inject and not lines["fired"] and lines["n"] == inject["at_line"]:
            lines["fired"] = True
            site = site_name(fn, line)
            lines["site"] = site
            kernel.ev("inject", sig=inject["signal"], site=site, func=code.co_name, live=[p.pid for p in kernel.running()],
                      zombies=[p.pid for p in kernel.procs.values() if p.state == "zombie"])
            if inject.get("break_stdout"):
                kernel.stdout_broken = True
            if inject.get("exits_after"):
                # the other tasks finish (or die) while Conductor is busy aborting
                kernel.st["p_line"] = 1.0
                kernel.st.setdefault("p_exit", {})["line"] = inject["exits_after"]
            lines["fired_n"] = lines["n"]
            signal.raise_signal(sig_by_name[inject["signal"]])
            return None
        if inject and lines["fired"] and inject.get("second") and not lines.get("fired2") and lines["n"] == lines["fired_n"] + inject["second"]["after"]:
            # a second interrupt (Ctrl-C pressed twice; SIGINT from the terminal plus SIGTERM from a supervisor) while
            # Conductor is dealing with the first one
            lines["fired2"] = True
            site = site_name(fn, line)
            lines["site2"] = site
            kernel.ev("inject2", sig=inject["second"]["signal"], site=site, func=code.co_name, live=[p.pid for p in kernel.running()])
            signal.raise_signal(sig_by_name[inject["second"]["signal"]])
            return None
        kernel.line_point()
        return None

    if want_lines:
        mon.use_tool_id(TOOL, "cverif")
        mon.register_callback(TOOL, mon.events.LINE, on_line)
        mon.set_events(TOOL, mon.events.LINE)

    out = LoggedStream(kernel, "stdout")
    err = LoggedStream(kernel, "stderr")
    old = (sys.stdout, sys.stderr, sys.argv)
    sys.stdout, sys.stderr = out, err
    sys.argv = ["cond"] + list(spec["argv"])
    result = {"exit": None, "exception": None}

    def wd(signum, frame):
        raise WatchdogFired("wall clock")

    signal.signal(signal.SIGALRM, wd)
    signal.alarm(int(spec.get("wall_timeout", 60)))
    t0 = time.monotonic()
    try:
        import conductor.__main__ as cm
        try:
            cm.main()
            result["exit"] = 0
        except SystemExit as ex:
            c = ex.code
            result["exit"] = 0 if c is None else (c if isinstance(c, int) else 1)
        except Deadlock as ex:
            result["exception"] = "Deadlock"
            result["deadlock"] = kernel.deadlock
        except WatchdogFired as ex:
            result["exception"] = "Watchdog"
            result["watchdog"] = str(ex)
        except KeyboardInterrupt:
            result["exit"] = 130
            result["exception"] = "KeyboardInterrupt"
        except BaseException as ex:  # what the interpreter would print as a traceback
            result["exit"] = 1
            result["exception"] = type(ex).__name__
            result["traceback"] = traceback.format_exc()[-3000:]
            kernel.ev("stderr", text="Traceback (most recent call last):\n" + traceback.format_exc()[-1500:])
    finally:
        signal.alarm(0)
        if want_lines:
            try:
                mon.set_events(TOOL, 0)
                mon.free_tool_id(TOOL)
            except Exception:
                pass
        sys.stdout, sys.stderr, sys.argv = old
    kernel.ev("return", **{k: v for k, v in result.items() if k != "traceback"})

    # fresh-connection view of the index (what the next `cond` would see)
    rows = None
    dbp = os.path.join(root, "cond-out", "version_index.sqlite")
    if os.path.exists(dbp):
        try:
            c = sqlite3.connect(dbp)
            rows = [list(r) for r in c.execute("SELECT task_identifier, timestamp, git_commit_hash, has_uncommitted_changes FROM version_index ORDER BY 1,2")]
            c.close()
        except sqlite3.Error as ex:
            rows = "sqlite error: %s" % ex

    procs = []
    for p in kernel.procs.values():
        if p.unrelated:
            continue
        procs.append({"pid": p.pid, "task": p.task, "state": p.state, "status": p.status, "t_spawn": p.t_spawn,
                      "t_exit": p.t_exit, "t_reap": p.t_reap, "reaped_by": p.reaped_by, "signals": p.signals,
                      "slot": p.env.get("COND_SLOT"), "cond_env": {k: v for k, v in p.env.items() if k.startswith("COND_")},
                      "cwd": p.cwd, "argv": p.argv})
    return {
        "result": result,
        "log": kernel.log,
        "procs": procs,
        "rows": rows,
        "uninterposed": sorted(set(kernel.uninterposed)),
        "lines": {"n": lines["n"], "site": lines["site"], "fired": lines["fired"], "fired2": bool(lines.get("fired2")), "site2": lines.get("site2"), "sites": lines["sites"] if spec.get("count_lines") else None},
        "stats": {"states": sorted(kernel.states_seen), "sigchld": kernel.sigchld_deliveries, "max_batch": kernel.max_batch,
                  "lost_candidates": kernel.lost_candidates, "read_races": kernel.read_races, "steps": kernel.steps, "wall": time.monotonic() - t0},
        "strategy": sname,
    }


# --------------------------------------------------------------------------------------------
# helpers over a history
# --------------------------------------------------------------------------------------------
import re

ANSI = re.compile(r"\x1b\[[0-9;]*m")
ID_RE = r"//[A-Za-z0-9_\-/]*:[A-Za-z0-9_\-]+"


def stdout_text(log, name="stdout"):
    return "".join(d.get("text", d.get("data", "")) for t, k, d in log if k in (name, name + "_bytes"))


def parse_status_lines(log):
    """Conductor's user-visible status lines with their logical time.  Identifiers are pulled out
    by grammar, section headers by keyword."""
    evs = []
    buf = ""
    tline = None
    for t, k, d in log:
        if k != "stdout":
            continue
        s = ANSI.sub("", d["text"])
        if not s:
            continue
        if not buf:
            tline = t
        buf += s
        while "\n" in buf:
            line, buf = buf.split("\n", 1)
            evs.append((tline, line))
            tline = t
    if buf:
        evs.append((tline, buf))
    out = []
    section = None
    for t, line in evs:
        m = re.search(ID_RE, line)
        if "Failed task(s)" in line:
            section = "failed"
            continue
        if "Skipped task(s)" in line:
            section = "skipped"
            continue
        if "Running" in line and m and re.search(r"\((\d+)/(\d+)\)", line):
            k, n = re.search(r"\((\d+)/(\d+)\)", line).groups()
            out.append((t, "running", m.group(0), int(k), int(n)))
        elif "Skipping" in line and m:
            mm = re.search(r"\((\d+)/(\d+)\)", line)
            out.append((t, "skipping", m.group(0), int(mm.group(1)) if mm else None, int(mm.group(2)) if mm else None))
        elif "Using cached results" in line and m:
            out.append((t, "cached", m.group(0), None, None))
        elif "completed successfully" in line and m:
            out.append((t, "succeeded", m.group(0), None, None))
        elif "failed." in line and m and section is None:
            out.append((t, "failed", m.group(0), None, None))
        elif "Done!" in line:
            out.append((t, "done", None, None, None))
        elif "Task failed." in line:
            out.append((t, "task_failed", None, None, None))
        elif "Task aborted" in line:
            out.append((t, "aborted", None, None, None))
        elif section and m and line.startswith("  ") and not line.startswith("    "):
            out.append((t, "report_" + section, m.group(0), None, None))
    return out
