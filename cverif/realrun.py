"""E1 helpers: real projects whose task commands are the probe, run by the real CLI with real
processes; event-log reading; tree hashing; index reading."""
import base64
import hashlib
import json
import os
import sqlite3
import stat
import subprocess

from . import common, gen, cli

PROBE = os.path.join(common.VERIF, "cverif", "probe.py")


def staging_name():
    """the directory name `cond restore` stages in (read from the code under test, so that the workloads that plant
    leftovers of a killed restore keep hitting the right place)"""
    try:
        common.import_repo()
        from conductor.config import ARCHIVE_STAGING
        return ARCHIVE_STAGING
    except Exception:
        return "archive-tmp"


def b64(b):
    return base64.b64encode(b).decode()


class Project:
    def __init__(self, scratch_root, tasks, scripts=None, disable_git=True, name="p", hostile=None):
        """hostile: {"odd_root": bool, "condout_symlink": bool, "outer_project": bool} - legitimate but unusual
        surroundings: a project path with spaces and non-ASCII characters; cond-out placed on other storage behind a
        symbolic link; the project nested inside another Conductor project's directory tree"""
        hostile = hostile or {}
        self.scratch = scratch_root
        plain = name   # helper files (scenario, event log, gates) keep shell-inert names
        if hostile.get("odd_root"):
            name = name + " pr\u00f6j (1)"
        if hostile.get("colon_root"):
            name = name + " 10:30"   # time-stamped folder names; ':' is also COND_DEPS' separator
        self.root = os.path.join(scratch_root, name)
        name = plain
        self.tasks = tasks
        self.tb = {t["id"]: t for t in tasks}
        self.scripts = scripts or {}
        self.log = os.path.join(scratch_root, name + "-events.jsonl")
        self.gates = os.path.join(scratch_root, name + "-gates")
        self.scn_path = os.path.join(scratch_root, name + "-scn.json")
        os.makedirs(self.gates, exist_ok=True)
        self.write_scn()
        for t in tasks:
            if t["kind"] in gen.PROC_KINDS and not t.get("raw_run"):
                needs_site = any(s[0] == "lib" for s in self.scripts.get(t["id"], {}).get("steps", []))
                t["run"] = "python3 %s%s %s %s" % ("" if needs_site else "-S ", PROBE, self.scn_path, t["id"])
        gen.write_project(self.root, tasks, disable_git=disable_git, reused_containers=bool(hostile.get("reused_containers")))
        if hostile.get("condout_symlink"):
            real_out = os.path.join(scratch_root, "storage vol", "deeper", name + "-cond-out")
            os.makedirs(real_out, exist_ok=True)
            os.symlink(real_out, os.path.join(self.root, "cond-out"))
        if hostile.get("pkgdir_symlink"):
            # the output directory of ONE package lives on other storage (cond-out/<pkg> is a symbolic link to a
            # directory at another depth): e.g. the figures of a paper, or a package with bulky outputs
            pkgs = sorted({t["pkg"] for t in tasks if t["pkg"]})
            if pkgs:
                pk = pkgs[int(hostile.get("pkg_index", 0)) % len(pkgs)]
                link = os.path.join(self.root, "cond-out", pk)
                if not os.path.lexists(link):
                    os.makedirs(os.path.dirname(link), exist_ok=True)
                    real = os.path.join(scratch_root, "bulk storage", "x", "y", "z", name + "-" + pk.replace("/", "_"))
                    os.makedirs(real, exist_ok=True)
                    os.symlink(real, link)
        if hostile.get("outer_project") and not os.path.exists(os.path.join(scratch_root, "cond_config.toml")):
            # the project is nested in another Conductor project's tree; the nearest cond_config.toml is the root
            with open(os.path.join(scratch_root, "cond_config.toml"), "w") as f:
                f.write("disable_git = true\n")
            with open(os.path.join(scratch_root, "COND"), "w") as f:
                f.write("run_command(name='outer', run='exit 3')\n")
        # surroundings of the cond PROCESS (environment variables that only change rendering, CPU affinity)
        self.proc_env = dict(hostile.get("env") or {})
        self.proc = {"one_cpu": True, "cpu_index": hostile.get("cpu_index", 0)} if hostile.get("one_cpu") else None
        for k0 in ("ignore_sigchld", "block_sigchld"):
            if hostile.get(k0):
                self.proc = dict(self.proc or {}, **{k0: True})
        self._pos = 0

    def write_scn(self):
        with open(self.scn_path, "w") as f:
            json.dump({"log": self.log, "gates": self.gates, "scripts": self.scripts}, f)

    def cond(self, argv, cwd="", run_id=None, **kw):
        env = dict(self.proc_env)
        env.update(kw.pop("env_extra", {}) or {})
        if self.proc and "proc" not in kw:
            kw["proc"] = self.proc
        if run_id is not None:
            env["CVERIF_RUN_ID"] = str(run_id)
        return cli.run_cli(argv, os.path.join(self.root, cwd), self.scratch, env_extra=env, **kw)

    def events(self, new_only=False):
        if not os.path.exists(self.log):
            return []
        with open(self.log) as f:
            if new_only:
                f.seek(self._pos)
            data = f.read()
            self._pos = f.tell()
        out = []
        for line in data.splitlines():
            try:
                out.append(json.loads(line))
            except ValueError:
                pass
        return out

    def where(self, tid, extra=()):
        r = self.cond(["where", tid] + list(extra))
        if r.code == 0 and r.out.strip():
            return r.out.strip()
        return None

    def rows(self):
        return read_rows(self.root)

    def out_dir(self, tid, version=None):
        pkg, name = gen.split_tid(tid)
        return os.path.join(self.root, "cond-out", pkg, name + ".task" + ("" if version is None else ".%s" % version))


PROC_ENVS = [{"NO_COLOR": "1"}, {"TERM": "dumb"}, {"NO_COLOR": "1", "TERM": "dumb", "COLUMNS": "12"}, {"NO_COLOR": ""}, {"COLUMNS": "1", "LINES": "1"}, {"FORCE_COLOR": "1"}, {"PYTHONUNBUFFERED": "1"}]


def hostile_choice(rng, p_root=0.25, p_link=0.2, p_outer=0.15, p_env=0.2, p_cpu=0.1):
    h = {"odd_root": rng.random() < p_root, "condout_symlink": rng.random() < p_link, "outer_project": rng.random() < p_outer}
    if rng.random() < p_env:
        h["env"] = dict(rng.choice(PROC_ENVS))
    if rng.random() < p_cpu:
        h["one_cpu"] = True
        h["cpu_index"] = rng.randrange(64)
    r0 = rng.random()
    if r0 < 0.07:
        h["ignore_sigchld"] = True    # inherited disposition of a daemon-like parent
    elif r0 < 0.12:
        h["block_sigchld"] = True     # inherited signal mask of a supervisor
    if rng.random() < 0.12:
        h["pkgdir_symlink"] = True
        h["pkg_index"] = rng.randrange(16)
    if rng.random() < 0.15:
        # COND files written as sweeps: one args list / options dict / deps list per file, updated in place
        h["reused_containers"] = True
    return h


def read_rows(root):
    dbp = os.path.join(root, "cond-out", "version_index.sqlite")
    if not os.path.exists(dbp):
        return []
    # read-write on purpose: after a kill in the middle of a transaction a hot journal exists and the next
    # connection (the next `cond`, or this one) rolls it back; a read-only connection cannot do that
    c = sqlite3.connect(dbp)
    try:
        return [list(r) for r in c.execute("SELECT task_identifier, timestamp, git_commit_hash, has_uncommitted_changes FROM version_index ORDER BY 1,2")]
    except sqlite3.Error as ex:
        return "sqlite error: %s" % ex
    finally:
        c.close()


def tree_hash(path, with_mtime=False):
    """Merkle hash of a directory: file type, owner permission bits, symlink target, bytes."""
    h = hashlib.sha256()
    try:
        st = os.lstat(path)
    except OSError:
        return "MISSING"
    if stat.S_ISLNK(st.st_mode):
        h.update(b"L" + os.readlink(path).encode())
    elif stat.S_ISDIR(st.st_mode):
        h.update(b"D%o" % (st.st_mode & 0o700))
        for name in sorted(os.listdir(path)):
            h.update(name.encode("utf-8", "surrogateescape") + b"\0" + tree_hash(os.path.join(path, name)).encode())
    elif stat.S_ISREG(st.st_mode):
        h.update(b"F%o" % (st.st_mode & 0o700))
        with open(path, "rb") as f:
            while True:
                b = f.read(1 << 20)
                if not b:
                    break
                h.update(b)
    else:
        h.update(b"O%o" % st.st_mode)
    return h.hexdigest()[:16]


def snapshot(root, sub="cond-out"):
    """{relative dir path: tree hash} for every directory below root/sub whose name contains
    '.task', plus a hash of everything else (loose files)."""
    base = os.path.join(root, sub)
    snap = {}
    if not os.path.isdir(base):
        return snap
    for dp, dns, fns in os.walk(base):
        keep = []
        for d in dns:
            full = os.path.join(dp, d)
            if ".task" in d and not os.path.islink(full):
                snap[os.path.relpath(full, base)] = tree_hash(full)
            elif not os.path.islink(full):
                keep.append(d)
        dns[:] = keep
    return snap


def git(root, *args, env=None, check=True):
    e = common.clean_env(env)
    r = subprocess.run(["git"] + list(args), cwd=root, env=e, capture_output=True, text=True)
    if check and r.returncode != 0:
        raise RuntimeError("git %s failed: %s" % (args, r.stderr))
    return r.stdout.strip()
