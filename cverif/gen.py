"""Project / task-graph generators.  The generator's own data (the DAG it wrote) is the ground
truth every oracle uses; nothing here imports Conductor."""
import itertools
import json
import os

KINDS = ("run_command", "run_experiment", "group", "combine")
PROC_KINDS = ("run_command", "run_experiment")
PKGS = ("", "a", "a/b", "c", "a/b/d-e", "c_1")


def tid(pkg, name):
    return "//%s:%s" % (pkg, name)


def split_tid(t):
    assert t.startswith("//")
    pkg, name = t[2:].rsplit(":", 1)
    return pkg, name


class Task(dict):
    """keys: id, pkg, name, kind, deps (list of canonical ids, in declared order), par, args,
    options, run, dep_strs (how the deps are written in the COND file)"""

    @property
    def id(self):
        return self["id"]


def mk_task(pkg, name, kind, deps=(), par=False, args=None, options=None, run="true", rel_ok=True):
    deps = list(deps)
    dep_strs = []
    for d in deps:
        dp, dn = split_tid(d)
        if rel_ok and dp == pkg:
            dep_strs.append(":" + dn)
        else:
            dep_strs.append(d)
    return Task(id=tid(pkg, name), pkg=pkg, name=name, kind=kind, deps=deps, par=bool(par),
                args=list(args or []), options=dict(options or {}), run=run, dep_strs=dep_strs)


def py_lit(v):
    if isinstance(v, float):
        if v != v:
            return 'float("nan")'
        if v in (float("inf"), float("-inf")):
            return 'float("%s")' % ("inf" if v > 0 else "-inf")
    return repr(v)


def task_src(t):
    k = t["kind"]
    parts = ["name=%r" % t["name"]]
    if k in PROC_KINDS:
        parts.append("run=%r" % t["run"])
        if t["par"]:
            parts.append("parallelizable=True")
        if t["args"]:
            parts.append("args=[%s]" % ", ".join(py_lit(a) for a in t["args"]))
        if t["options"]:
            parts.append("options={%s}" % ", ".join("%r: %s" % (kk, py_lit(vv)) for kk, vv in t["options"].items()))
    if t["dep_strs"] or k in ("group", "combine"):
        parts.append("deps=[%s]" % ", ".join(repr(d) for d in t["dep_strs"]))
    return "%s(\n  %s,\n)\n" % (k, ",\n  ".join(parts))


def task_src_reused_containers(t):
    """The same definition written the way parameter sweeps are written: one list / dict per COND file that is
    updated in place before each declaration (and again afterwards)."""
    k = t["kind"]
    parts = ["name=%r" % t["name"]]
    pre = []
    if k in PROC_KINDS:
        parts.append("run=%r" % t["run"])
        if t["par"]:
            parts.append("parallelizable=True")
        pre.append("_ARGS[:] = [%s]" % ", ".join(py_lit(a) for a in t["args"]))
        pre.append("_OPTS.clear()")
        pre.append("_OPTS.update({%s})" % ", ".join("%r: %s" % (kk, py_lit(vv)) for kk, vv in t["options"].items()))
        parts.append("args=_ARGS")
        parts.append("options=_OPTS")
    pre.append("_DEPS[:] = [%s]" % ", ".join(repr(d) for d in t["dep_strs"]))
    parts.append("deps=_DEPS")
    return "%s\n%s(\n  %s,\n)\n" % ("\n".join(pre), k, ",\n  ".join(parts))


def write_project(root, tasks, disable_git=True, extra_files=None, reused_containers=False, cond_prefix=None):
    os.makedirs(root, exist_ok=True)
    with open(os.path.join(root, "cond_config.toml"), "w") as f:
        if disable_git:
            f.write("disable_git = true\n")
    bypkg = {}
    for t in tasks:
        bypkg.setdefault(t["pkg"], []).append(t)
    for pkg, ts in bypkg.items():
        d = os.path.join(root, pkg)
        os.makedirs(d, exist_ok=True)
        with open(os.path.join(d, "COND"), "w") as f:
            f.write((cond_prefix or {}).get(pkg, ""))
            if reused_containers:
                f.write("_ARGS, _OPTS, _DEPS = [], {}, []\n" + "\n".join(task_src_reused_containers(t) for t in ts)
                        + "\n_ARGS[:] = ['left-over', 'of', 'the', 'loop']\n_OPTS['left-over'] = True\n_DEPS[:] = []\n")
            else:
                f.write("\n".join(task_src(t) for t in ts))
    for rel, content in (extra_files or {}).items():
        p = os.path.join(root, rel)
        os.makedirs(os.path.dirname(p), exist_ok=True)
        with open(p, "w" if isinstance(content, str) else "wb") as f:
            f.write(content)


def closure(tasks_by_id, root_id):
    seen = []
    st = [root_id]
    s = set()
    while st:
        x = st.pop()
        if x in s:
            continue
        s.add(x)
        seen.append(x)
        st.extend(tasks_by_id[x]["deps"])
    return s


def ancestors_map(tasks_by_id):
    """deps+ for every task"""
    memo = {}

    def go(x):
        if x in memo:
            return memo[x]
        memo[x] = set()
        r = set()
        for d in tasks_by_id[x]["deps"]:
            r.add(d)
            r |= go(d)
        memo[x] = r
        return r

    for x in tasks_by_id:
        go(x)
    return memo


def rand_dag(rng, n, p_edge=0.4, kinds=None, pkgs=None, par_p=0.5, max_deps=4, names=None):
    """Random DAG: node i may depend on nodes j<i.  Returned list is in definition order
    (shuffled so that file order is unrelated to topological order); last generated node is
    returned as the natural root candidate but any node can be the target."""
    kinds = kinds or {"run_command": 4, "run_experiment": 3, "group": 1, "combine": 1}
    pkgs = pkgs or [""]
    kl = [k for k, w in kinds.items() for _ in range(w)]
    tasks = []
    ids = []
    for i in range(n):
        pkg = rng.choice(pkgs)
        name = (names[i] if names else "t%d" % i)
        kind = rng.choice(kl)
        cand = [j for j in range(i) if rng.random() < p_edge]
        if len(cand) > max_deps:
            cand = rng.sample(cand, max_deps)
        rng.shuffle(cand)
        deps = [ids[j] for j in cand]
        t = mk_task(pkg, name, kind, deps, par=rng.random() < par_p, rel_ok=rng.random() < 0.7)
        tasks.append(t)
        ids.append(t.id)
    return tasks


def structured_families():
    """Hand-picked shapes incl. shared sub-dependencies listed in 'the wrong order'."""
    fams = []

    def T(name, kind="run_command", deps=(), par=False, pkg=""):
        return mk_task(pkg, name, kind, [tid("", d) if not d.startswith("//") else d for d in deps], par=par)

    for k1 in ("run_command", "run_experiment"):
        for k2 in ("run_command", "run_experiment"):
            # a -> [b, d], b -> d   (d listed after a task that also depends on it)
            fams.append(("dup-order-bd-%s-%s" % (k1, k2), [T("d", k2), T("b", k1, ["d"]), T("a", k1, ["b", "d"])], "//:a"))
            fams.append(("dup-order-db-%s-%s" % (k1, k2), [T("d", k2), T("b", k1, ["d"]), T("a", k1, ["d", "b"])], "//:a"))
    fams.append(("diamond", [T("d"), T("b", deps=["d"]), T("c", deps=["d"]), T("a", deps=["b", "c"])], "//:a"))
    fams.append(("diamond-par", [T("d", par=True), T("b", deps=["d"], par=True), T("c", deps=["d"], par=True), T("a", deps=["c", "b"], par=True)], "//:a"))
    fams.append(("chain4", [T("x0", "run_experiment"), T("x1", deps=["x0"]), T("x2", "run_experiment", deps=["x1"]), T("x3", deps=["x2"])], "//:x3"))
    fams.append(("fan-in-par", [T("f%d" % i, "run_experiment" if i % 2 else "run_command", par=True) for i in range(6)] + [T("top", "combine", ["f%d" % i for i in range(6)])], "//:top"))
    fams.append(("fan-mixed", [T("s%d" % i, par=(i % 3 != 0)) for i in range(7)] + [T("top", "group", ["s%d" % i for i in range(7)])], "//:top"))
    fams.append(("deep-shared", [T("z"), T("y", deps=["z"]), T("x", deps=["y", "z"]), T("w", deps=["x", "z", "y"]), T("v", "group", ["w", "y"]), T("u", deps=["v", "z"])], "//:u"))
    fams.append(("group-mid", [T("l1", par=True), T("l2", par=True), T("g", "group", ["l1", "l2"]), T("m", "combine", ["l1", "l2"]), T("r", deps=["g", "m"])], "//:r"))
    # synchronisation points (group / combine) stacked on each other, with processes below that are still running
    for par in (False, True):
        sfx = "-par" if par else "-seq"
        fams.append(("combine-over-group" + sfx, [T("l1", par=par), T("l2", "run_experiment", par=par), T("y", par=par), T("g", "group", ["l1", "l2"]), T("m", "combine", ["g", "y"]), T("r", deps=["m"], par=par)], "//:r"))
        fams.append(("combine-over-combine" + sfx, [T("l1", par=par), T("l2", "run_experiment", par=par), T("y", "run_experiment", par=par), T("m1", "combine", ["l1", "l2"]), T("m2", "combine", ["y", "m1"]), T("r", deps=["m2"], par=par)], "//:r"))
        fams.append(("group-of-groups" + sfx, [T("l1", par=par), T("l2", par=par), T("l3", par=par), T("g1", "group", ["l1"]), T("g2", "group", ["g1", "l2"]), T("g3", "group", ["l3", "g2"]), T("r", "run_experiment", deps=["g3"], par=par)], "//:r"))
        fams.append(("combine-of-only-a-group" + sfx, [T("l1", par=par), T("l2", par=par), T("g", "group", ["l1", "l2"]), T("m", "combine", ["g"]), T("r", deps=["m", "l1"], par=par)], "//:r"))
    fams.append(("single", [T("only", "run_experiment")], "//:only"))
    fams.append(("group-only", [T("g0", "group")], "//:g0"))
    return fams


def all_dags(n):
    """Every DAG on n nodes named n0..n{n-1} with edges i->j only for j<i, every permutation of
    each dependency list (so every listing order of shared sub-dependencies)."""
    pairs = [(i, j) for i in range(n) for j in range(i)]
    for mask in range(1 << len(pairs)):
        deps = {i: [] for i in range(n)}
        for b, (i, j) in enumerate(pairs):
            if mask >> b & 1:
                deps[i].append(j)
        perm_lists = [list(itertools.permutations(deps[i])) for i in range(n)]
        for combo in itertools.product(*perm_lists):
            yield {i: list(combo[i]) for i in range(n)}


def dag_to_tasks(depmap, kinds=None, pars=None, pkg_of=None):
    n = len(depmap)
    ts = []
    for i in range(n):
        pkg = pkg_of[i] if pkg_of else ""
        ts.append((pkg, "n%d" % i))
    out = []
    for i in range(n):
        pkg, name = ts[i]
        out.append(mk_task(pkg, name, (kinds[i] if kinds else "run_command"), [tid(*ts[j]) for j in depmap[i]], par=(pars[i] if pars else False)))
    return out


def dump(tasks):
    return json.loads(json.dumps(tasks))
