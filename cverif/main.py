import argparse
import importlib
import os
import sys


def main():
    ap = argparse.ArgumentParser()
    ap.add_argument("prop")
    ap.add_argument("--tier", default=os.environ.get("VERIF_TIER", "quick"), choices=["quick", "thorough"])
    ap.add_argument("--replay", default=None)
    ap.add_argument("--n", type=int, default=None, help="override workload size (development)")
    a = ap.parse_args()
    mod = importlib.import_module("cverif.checks." + a.prop.lower())
    if a.replay:
        sys.exit(mod.replay(a.replay))
    sys.exit(mod.main(a.tier, a.n))


if __name__ == "__main__":
    main()
