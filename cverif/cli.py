"""Runs the real Conductor CLI.

fast mode : fork from the (warmed) harness process, redirect fds 1/2 to files, call
            conductor.__main__.main() - real signals, real child processes, real SQLite; only
            interpreter start-up is saved.  Exit status / traceback printing follow what the
            interpreter itself would do.
exec mode : a genuinely separate `python -m conductor` process (used on samples to confirm the
            fast mode is faithful, and wherever a pristine process matters).

Optional in-process instrumentation for the fast mode (all injected from here, nothing in /repo):
  audit   : path of a JSONL file; FS-mutating / process audit events of the Conductor process
  clock   : list of ints consumed by time.time() as seen by conductor.execution.version_index
  crash_at: k -> os._exit(137) at the k-th main-thread line event of the selected files (E3)
  count   : record the number of line events (and the sites) instead of crashing
  crash_on_audit: {events: [...], nth: k} -> os._exit(137) when the k-th of those audit events is raised
"""
import json
import os
import signal
import subprocess
import sys
import threading
import time
import traceback

from . import common

AUDIT_EVENTS = {"subprocess.Popen", "os.kill", "os.killpg", "os.symlink", "os.mkdir", "os.rmdir", "os.remove", "os.unlink", "os.rename",
                "shutil.rmtree", "shutil.copytree", "shutil.copyfile", "shutil.move", "open", "sqlite3.connect", "os.truncate", "os.chmod"}


def warm():
    common.import_repo()
    import conductor.__main__  # noqa: F401
    try:
        import conductor.envs.manager_impl  # noqa: F401
    except ImportError:
        pass
    import concurrent.futures.thread  # noqa: F401
    import sqlite3  # noqa: F401
    import conductor.lib  # noqa: F401


def _child(argv, cwd, env, out_path, err_path, stdin_path, opts):
    os.chdir(cwd)
    os.environ.clear()
    os.environ.update(env)
    os.environ["PWD"] = cwd  # what a shell exports (the logical path, symlinks not resolved)
    fo = os.open(out_path, os.O_WRONLY | os.O_CREAT | os.O_TRUNC, 0o644)
    fe = os.open(err_path, os.O_WRONLY | os.O_CREAT | os.O_TRUNC, 0o644)
    fi = os.open(stdin_path or "/dev/null", os.O_RDONLY)
    os.dup2(fi, 0)
    os.dup2(fo, 1)
    os.dup2(fe, 2)
    if opts.get("broken_stdio"):
        # `cond run ... | head`, a pager that was quit, a log collector that died: Conductor's own stdout (and/or
        # stderr) is a pipe nobody reads any more; every write fails with EPIPE
        for fdn in opts["broken_stdio"]:
            pr_, pw_ = os.pipe()
            os.close(pr_)
            os.dup2(pw_, fdn)
            os.close(pw_)
    if opts.get("block_sigchld") or (opts.get("proc") or {}).get("block_sigchld"):
        # started by a supervisor that keeps SIGCHLD blocked: the signal mask is inherited across fork and exec
        signal.pthread_sigmask(signal.SIG_BLOCK, {signal.SIGCHLD})
    sys.stdin = os.fdopen(0, "r", closefd=False)
    sys.stdout = os.fdopen(1, "w", closefd=False, encoding="utf-8")
    sys.stderr = os.fdopen(2, "w", closefd=False, encoding="utf-8")
    sys.argv = ["cond"] + list(argv)
    main_ident = threading.get_ident()
    for s in (signal.SIGINT, signal.SIGTERM, signal.SIGCHLD):
        signal.signal(s, signal.default_int_handler if s == signal.SIGINT else signal.SIG_DFL)
    if (opts.get("proc") or {}).get("ignore_sigchld"):
        # started by a daemon that ignores SIGCHLD (so that it never has zombies): the disposition survives exec;
        # the kernel then reaps children by itself and wait() cannot learn their exit status
        signal.signal(signal.SIGCHLD, signal.SIG_IGN)
    if opts.get("inherit_ignored"):
        # started like `cond run ... &` from a non-interactive shell / under `trap '' INT TERM`
        signal.signal(signal.SIGINT, signal.SIG_IGN)
        signal.signal(signal.SIGTERM, signal.SIG_IGN)

    for delay_ms, code in opts.get("prefork", []) or []:
        # children of the Conductor process that Conductor itself did not start
        if os.fork() == 0:
            try:
                time.sleep(delay_ms / 1000.0)
            finally:
                os._exit(code)

    if opts.get("audit"):
        af = open(opts["audit"], "a", buffering=1)

        def hook(event, args):
            if event not in AUDIT_EVENTS:
                return
            try:
                if event == "open":
                    mode = args[1]
                    if not isinstance(mode, str) or not any(c in mode for c in "wax+"):
                        return
                rec = {"t": time.monotonic_ns(), "ev": event, "main": threading.get_ident() == main_ident,
                       "args": [a if isinstance(a, (str, int, type(None))) else (os.fsdecode(a) if isinstance(a, (bytes, os.PathLike)) else repr(a)[:200]) for a in args[:3]]}
                if event == "subprocess.Popen" and len(args) > 3 and isinstance(args[3], dict):
                    rec["cond_env"] = {k: v for k, v in args[3].items() if isinstance(k, str) and k.startswith("COND_")}
                af.write(json.dumps(rec) + "\n")
            except Exception:
                pass

        sys.addaudithook(hook)

    if opts.get("proc"):
        # legitimate but unusual process surroundings: pinned to one CPU (taskset / cpuset / container), tight umask
        pr = opts["proc"]
        if pr.get("one_cpu"):
            try:
                os.sched_setaffinity(0, {sorted(os.sched_getaffinity(0))[pr.get("cpu_index", 0) % len(os.sched_getaffinity(0))]})
            except (OSError, AttributeError):
                pass
        if pr.get("umask") is not None:
            os.umask(pr["umask"])

    if opts.get("crash_on_audit"):
        # deterministic crash point: the process dies (as if SIGKILLed) when the n-th audit event out of a set is
        # raised, i.e. BEFORE that operation happens and after the n-1 earlier ones have completed
        coa = dict(opts["crash_on_audit"])
        coa_events = set(coa["events"])
        coa_state = {"n": 0}
        coa_main = threading.get_ident()

        def coa_hook(event, args):
            if event in coa_events and threading.get_ident() == coa_main:
                coa_state["n"] += 1
                if coa_state["n"] == coa["nth"]:
                    os._exit(137)

        sys.addaudithook(coa_hook)

    if opts.get("stdout_log"):
        # every write to Conductor's stdout/stderr also lands, with a monotonic timestamp, in a JSONL
        # file: one clock for spawns (audit), status lines and the probes' records
        sl = open(opts["stdout_log"], "a", buffering=1)

        class _Tee:
            def __init__(self, inner, name):
                self._i, self._n = inner, name

            def write(self, x):
                try:
                    sl.write(json.dumps({"t": time.monotonic_ns(), "stream": self._n, "text": x}) + "\n")
                except Exception:
                    pass
                return self._i.write(x)

            def __getattr__(self, a):
                return getattr(self._i, a)

        sys.stdout = _Tee(sys.stdout, "stdout")
        sys.stderr = _Tee(sys.stderr, "stderr")

    if opts.get("clock") is not None:
        import conductor.execution.version_index as vi
        seq = list(opts["clock"])

        class _T:
            def __getattr__(self, n):
                return getattr(time, n)

            @staticmethod
            def time():
                if seq:
                    return float(seq.pop(0)) if len(seq) > 1 else float(seq[0])
                return time.time()

        vi.time = _T()

    crash_at = opts.get("crash_at")
    count = opts.get("count")
    if crash_at is not None or count:
        mon = sys.monitoring
        TOOL = 4
        src_prefix = os.path.realpath(os.path.join(common.SRC, "conductor")) + os.sep
        extra_files = set(os.path.realpath(f) for f in opts.get("extra_files", []))
        state = {"n": 0, "sites": {}}

        def on_line(code, line):
            fn = code.co_filename
            if not (fn.startswith(src_prefix) or fn in extra_files):
                return mon.DISABLE
            if threading.get_ident() != main_ident:
                return None
            state["n"] += 1
            if count:
                site = (fn[len(src_prefix):] if fn.startswith(src_prefix) else os.path.basename(fn)) + ":" + str(line)
                state["sites"].setdefault(site, []).append(state["n"])
            elif state["n"] == crash_at:
                site = (fn[len(src_prefix):] if fn.startswith(src_prefix) else os.path.basename(fn)) + ":" + str(line)
                try:
                    with open(opts["crash_note"], "w") as f:
                        f.write(json.dumps({"site": site, "func": code.co_name, "n": state["n"]}))
                except Exception:
                    pass
                os._exit(137)
            return None

        mon.use_tool_id(TOOL, "cverif-e3")
        mon.register_callback(TOOL, mon.events.LINE, on_line)
        mon.set_events(TOOL, mon.events.LINE)

    code = 0
    try:
        import conductor.__main__ as cm
        cm.main()
    except SystemExit as ex:
        c = ex.code
        if c is None:
            code = 0
        elif isinstance(c, int):
            code = c & 0xFF
        else:
            print(c, file=sys.stderr)
            code = 1
    except KeyboardInterrupt:
        traceback.print_exc()
        code = 130
    except BaseException:  # noqa
        traceback.print_exc()
        code = 1
    try:
        sys.stdout.flush()
        sys.stderr.flush()
    except Exception:
        pass
    if count:
        try:
            with open(count, "w") as f:
                json.dump({"n": state["n"], "sites": state["sites"]}, f)
        except Exception:
            pass
    os._exit(code)


class CliResult(dict):
    @property
    def out(self):
        return self["stdout"]

    @property
    def err(self):
        return self["stderr"]

    @property
    def code(self):
        return self["exit"]



# --------------------------------------------------------------------------------------------
# stall detection on the real kernel: a verdict that does not depend on how long anything takes
# --------------------------------------------------------------------------------------------
_UNTIMED = {0: "read", 1: "write", 61: "wait4", 247: "waitid"}   # x86_64; futex (202) is handled apart


def _relevant_pids(root_pid, scratch_dir):
    ppid = {}
    for name in os.listdir("/proc"):
        if not name.isdigit():
            continue
        try:
            with open("/proc/%s/stat" % name) as f:
                st = f.read()
            ppid[int(name)] = int(st[st.rindex(")") + 2:].split()[1])
        except (OSError, ValueError):
            continue
    rel = {root_pid}
    changed = True
    while changed:
        changed = False
        for p0, pp in ppid.items():
            if pp in rel and p0 not in rel:
                rel.add(p0)
                changed = True
    pref = os.path.realpath(scratch_dir) + os.sep
    for p0 in ppid:
        if p0 not in rel:
            try:
                if (os.path.realpath(os.readlink("/proc/%d/cwd" % p0)) + os.sep).startswith(pref):
                    rel.add(p0)
            except OSError:
                pass
    return rel


def session_state(root_pid, scratch_dir):
    """None if some relevant thread is runnable, in a timed wait or not inspectable; otherwise a hashable
    description (thread, blocking syscall, CPU ticks) of a state in which every thread of Conductor, of its
    descendants and of every process living in the scratch directory sleeps in an untimed blocking call."""
    desc = []
    writers = 0
    for p0 in sorted(_relevant_pids(root_pid, scratch_dir)):
        try:
            tids = os.listdir("/proc/%d/task" % p0)
            with open("/proc/%d/stat" % p0) as f:
                st = f.read()
            fields = st[st.rindex(")") + 2:].split()
            if fields[0] == "Z":
                desc.append((p0, "zombie"))
                continue
            ticks = int(fields[11]) + int(fields[12])
            for t in sorted(tids):
                with open("/proc/%d/task/%s/syscall" % (p0, t)) as f:
                    sc = f.read().split()
                if not sc or sc[0] in ("running", "-1"):
                    return None
                nr = int(sc[0])
                if nr == 202:
                    op = int(sc[2], 16) & 0x7F
                    if op not in (0, 9) or int(sc[4], 16) != 0:   # FUTEX_WAIT / FUTEX_WAIT_BITSET without a timeout
                        return None
                    what = "futex"
                elif nr in _UNTIMED:
                    what = _UNTIMED[nr]
                    if nr in (0, 1):
                        fd = int(sc[1], 16)
                        try:
                            tgt = os.readlink("/proc/%d/fd/%d" % (p0, fd))
                        except OSError:
                            return None
                        if not tgt.startswith("pipe:"):
                            return None
                        what += " " + tgt
                        if nr == 1:
                            writers += 1
                else:
                    return None
                desc.append((p0, int(t), what, ticks))
        except (OSError, ValueError, IndexError):
            return None
    if not writers:
        return None
    return tuple(desc)


_UNPRIV = {}


def unprivileged_available():
    """can this sandbox start a process without root's permission override? (probed once, for real)"""
    if "ok" not in _UNPRIV:
        try:
            r = subprocess.run(["setpriv", "--bounding-set", "-dac_override,-dac_read_search,-fowner", "true"], capture_output=True, timeout=20)
            _UNPRIV["ok"] = (r.returncode == 0)
        except (OSError, subprocess.SubprocessError):
            _UNPRIV["ok"] = False
    return _UNPRIV["ok"]


def run_cli(argv, cwd, scratch_dir, env_extra=None, stdin_text=None, timeout=120, mode="fast", **opts):
    """Returns CliResult(exit, signal, stdout, stderr, timed_out, wall)."""
    env = common.clean_env(env_extra)
    tag = "%d-%d" % (os.getpid(), time.monotonic_ns())
    out_path = os.path.join(scratch_dir, "o-" + tag)
    err_path = os.path.join(scratch_dir, "e-" + tag)
    stdin_path = None
    if stdin_text is not None:
        stdin_path = os.path.join(scratch_dir, "i-" + tag)
        with open(stdin_path, "w") as f:
            f.write(stdin_text)
    t0 = time.monotonic()
    timed_out = False
    if mode == "exec":
        with open(out_path, "wb") as fo, open(err_path, "wb") as fe:
            prefix = []
            if opts.get("unprivileged"):
                # the checks run as root, whose CAP_DAC_OVERRIDE makes permission bits meaningless; an ordinary user's
                # view is obtained by dropping those capabilities for the cond process (and everything it starts)
                prefix = ["setpriv", "--bounding-set", "-dac_override,-dac_read_search,-fowner"]
            p = subprocess.Popen(prefix + [common.PY, "-m", "conductor"] + list(argv), cwd=cwd, env=env, stdout=fo, stderr=fe,
                                 stdin=open(stdin_path) if stdin_path else subprocess.DEVNULL, start_new_session=True)
            try:
                p.wait(timeout=timeout)
            except subprocess.TimeoutExpired:
                timed_out = True
                try:
                    os.killpg(p.pid, signal.SIGKILL)
                except OSError:
                    pass
                p.wait()
            rc = p.returncode
        status = (rc << 8) if rc >= 0 else (-rc)
    else:
        sys.stdout.flush()
        sys.stderr.flush()
        pid = os.fork()
        if pid == 0:
            try:
                os.setsid()
            except OSError:
                pass
            try:
                _child(argv, cwd, env, out_path, err_path, stdin_path, opts)
            finally:
                os._exit(97)
        deadline = t0 + timeout
        status = None
        stall_seen, stall_n, stall_next = None, 0, t0 + 3.0
        stalled = None
        while True:
            r, st = os.waitpid(pid, os.WNOHANG)
            if r == pid:
                status = st
                break
            if opts.get("stall_check") and time.monotonic() > stall_next:
                # six identical all-asleep states in a row (one second apart, no CPU tick consumed by anyone, a task
                # blocked in write() on a pipe): nothing inside can ever wake anything up again
                stall_next = time.monotonic() + 1.0
                cur = session_state(pid, scratch_dir)
                if cur is not None and cur == stall_seen:
                    stall_n += 1
                else:
                    stall_seen, stall_n = cur, 0
                if stall_n >= 5:
                    stalled = [list(x) for x in cur]
                    try:
                        os.killpg(pid, signal.SIGKILL)
                    except OSError:
                        os.kill(pid, signal.SIGKILL)
                    for x in cur:
                        if x[0] != pid:
                            try:
                                os.kill(x[0], signal.SIGKILL)
                            except OSError:
                                pass
                    _, status = os.waitpid(pid, 0)
                    break
            if opts.get("poll") is not None:
                try:
                    opts["poll"](pid)
                except Exception:
                    pass
            if time.monotonic() > deadline:
                timed_out = True
                try:
                    os.killpg(pid, signal.SIGKILL)
                except OSError:
                    os.kill(pid, signal.SIGKILL)
                _, status = os.waitpid(pid, 0)
                break
            time.sleep(0.002)
    res = CliResult()
    res["exit"] = os.WEXITSTATUS(status) if os.WIFEXITED(status) else None
    res["signal"] = os.WTERMSIG(status) if os.WIFSIGNALED(status) else None
    res["timed_out"] = timed_out
    res["stalled"] = stalled if mode != "exec" else None
    res["wall"] = time.monotonic() - t0
    for k, pth in (("stdout", out_path), ("stderr", err_path)):
        try:
            with open(pth, "rb") as f:
                res[k + "_bytes"] = f.read()
            res[k] = res[k + "_bytes"].decode("utf-8", "replace")
        except OSError:
            res[k + "_bytes"] = b""
            res[k] = ""
        try:
            os.unlink(pth)
        except OSError:
            pass
    if stdin_path:
        try:
            os.unlink(stdin_path)
        except OSError:
            pass
    res["argv"] = list(argv)
    res["cwd"] = cwd
    return res


def brief(res, n=600):
    return {"argv": res["argv"], "cwd": res["cwd"], "exit": res["exit"], "signal": res["signal"], "timed_out": res["timed_out"],
            "stdout": res["stdout"][-n:], "stderr": res["stderr"][-n:]}
