"""C16 - an interrupt stops all running tasks and records nothing unfinished.

Fault enumeration: SIGINT/SIGTERM is raised (signal.raise_signal => the *registered* handler
runs in the frame that was executing) at main-thread line events of conductor.* (thorough: also
subprocess.py, i.e. signals landing inside Popen.__init__ after the fork) during real
`cond run` invocations over the interposed kernel.  Oracle: kernel log (who was alive, who got
SIGTERM), how main() ended, rows seen by a fresh sqlite connection."""
import json
import os

from .. import common, gen, sched, schedsim
from . import _sched_common as S

PROP = "C16"
RULE = ("scenarios (sequential chain; parallel fan -j3; experiments with args/options (tee threads); mixed group/combine; failing task with and without --stop-early; cached prefix) "
        "x SIGINT/SIGTERM x main-thread line events of conductor.* after register_signal_handlers (quick: every distinct file:line site, first occurrences, more occurrences for executor/ops/sigchld; "
        "thorough: every line event, plus subprocess.py lines); non-trivial = injection fired; distinct = (scenario, site, #children alive, #zombies)")

CRITICAL = ("execution/executor.py", "execution/ops/", "utils/sigchld.py", "errors/signal.py", "utils/output_handler.py", "utils/tee.py", "execution/version_index.py")


def T(name, kind="run_command", deps=(), par=False, pkg="", args=None, options=None):
    return gen.mk_task(pkg, name, kind, [gen.tid("", d) if not d.startswith("//") else d for d in deps], par=par, args=args, options=options)


def scenarios():
    sc = []
    sc.append({"name": "seq-chain", "tasks": [T("x0", "run_experiment"), T("x1", deps=["x0"]), T("x2", "run_experiment", deps=["x1"])],
               "pre": [], "inv": {"target": "//:x2", "jobs": None, "strategy": "blocked-fifo", "seed": 1}})
    fan = [T("f%d" % i, "run_experiment" if i % 2 else "run_command", par=True, pkg="a" if i % 3 == 0 else "") for i in range(5)]
    sc.append({"name": "par-fan-j3", "tasks": fan + [gen.mk_task("", "top", "combine", [t["id"] for t in fan])],
               "pre": [], "inv": {"target": "//:top", "jobs": 3, "strategy": "blocked-random", "seed": 2}})
    sc.append({"name": "par-fan-j3-eager", "tasks": fan + [gen.mk_task("", "top", "combine", [t["id"] for t in fan])],
               "pre": [], "inv": {"target": "//:top", "jobs": 3, "strategy": "anywhere", "seed": 5}})
    sc.append({"name": "exp-tee", "tasks": [T("e0", "run_experiment", args=[1, "x", True], options={"k": 2.5}), T("e1", "run_experiment", deps=["e0"], options={"z": False})],
               "pre": [], "inv": {"target": "//:e1", "jobs": None, "strategy": "blocked-fifo", "seed": 3}})
    sc.append({"name": "mixed-sync-j2", "tasks": [T("l1", par=True), T("l2", "run_experiment", par=True), T("g", "group", ["l1", "l2"]), T("m", "combine", ["l1", "l2"]), T("r", "run_experiment", deps=["g", "m"])],
               "pre": [], "inv": {"target": "//:r", "jobs": 2, "strategy": "blocked-lifo", "seed": 4}})
    fl = [T("p%d" % i, "run_experiment" if i == 2 else "run_command", par=True) for i in range(4)]
    sc.append({"name": "failing-j2", "tasks": fl + [T("top", deps=["p0", "p1", "p2", "p3"])],
               "pre": [], "inv": {"target": "//:top", "jobs": 2, "strategy": "blocked-fifo", "seed": 6, "script": {"//:p1": {"exit": 3}}}})
    sc.append({"name": "failing-stop-early-j3", "tasks": fl + [T("top", deps=["p0", "p1", "p2", "p3"])],
               "pre": [], "inv": {"target": "//:top", "jobs": 3, "strategy": "blocked-fifo", "seed": 7, "stop_early": True, "script": {"//:p0": {"signal": 9}}}})
    sc.append({"name": "cached-prefix", "tasks": [T("c0", "run_experiment"), T("c1", "run_experiment", deps=["c0"]), T("c2", deps=["c1", "c0"]), T("c3", "run_experiment", deps=["c2"])],
               "pre": [{"target": "//:c1", "jobs": None, "strategy": "blocked-fifo", "seed": 8}], "inv": {"target": "//:c3", "jobs": None, "strategy": "blocked-fifo", "seed": 9}})
    sc.append({"name": "launch-fail-then-abort-j2", "tasks": fl + [T("top", deps=["p0", "p1", "p2", "p3"])],
               "pre": [], "inv": {"target": "//:top", "jobs": 2, "strategy": "blocked-fifo", "seed": 11, "script": {"//:p0": {"launch_fail": "exec"}}}})
    sc.append({"name": "launch-fail-chdir-seq", "tasks": [T("q0"), T("q1", "run_experiment"), T("q2", "run_experiment", deps=["q1"]), T("top", "group", ["q0", "q2"])],
               "pre": [], "inv": {"target": "//:top", "jobs": None, "strategy": "blocked-fifo", "seed": 12, "script": {"//:q0": {"launch_fail": "chdir"}}}})
    sd = [T("s%d" % i, "run_experiment", par=(i != 3)) for i in range(5)]
    sc.append({"name": "experiments-dying-by-signal-seq", "tasks": sd + [gen.mk_task("", "top", "group", [t["id"] for t in sd])],
               "pre": [], "inv": {"target": "//:top", "jobs": None, "strategy": "blocked-fifo", "seed": 15, "script": {"//:s0": {"signal": 9}, "//:s2": {"signal": 15}, "//:s3": {"exit": 256 + 0}}}})
    sc.append({"name": "experiments-dying-by-signal-j2", "tasks": sd + [gen.mk_task("", "top", "group", [t["id"] for t in sd])],
               "pre": [], "inv": {"target": "//:top", "jobs": 2, "strategy": "blocked-random", "seed": 16, "script": {"//:s1": {"signal": 11}, "//:s2": {"signal": 2}}}})
    sc.append({"name": "failing-j2-plain-output-env", "tasks": fl + [T("top", deps=["p0", "p1", "p2", "p3"])],
               "pre": [], "inv": {"target": "//:top", "jobs": 2, "strategy": "blocked-fifo", "seed": 17, "script": {"//:p1": {"exit": 3}}, "outer_env": {"NO_COLOR": "1", "TERM": "dumb", "COLUMNS": "10"}}})
    sc.append({"name": "seq-chain-one-cpu-nested", "tasks": [T("x0", "run_experiment"), T("x1", deps=["x0"]), T("x2", "run_experiment", deps=["x1"])],
               "pre": [], "inv": {"target": "//:x2", "jobs": None, "strategy": "blocked-fifo", "seed": 18, "proc": {"one_cpu": True, "cpu_index": 3},
                                  "outer_env": {"COND_SLOT": "2", "COND_NAME": "outer", "COND_OUT": "/outer/o.task", "COND_DEPS": "", "FORCE_COLOR": "1"}}})
    # COND files that include() other files (whose evaluation takes a few statements)
    # (with an Enum whose members are initialised by a few statements: CPython builds an Enum class inside
    # EnumType.__new__, which since 3.12 re-creates whatever exception passes through it as type(e)(str(e)) - the same
    # happens for every Enum of every module imported after the signal handlers are in place)
    inc = ("import enum, math\nBASE = 2\nVALS = []\nfor i in range(4):\n    VALS.append(BASE * i)\n"
           "class Mode(enum.Enum):\n    FAST = 1\n    SLOW = 2\n    def __init__(self, level):\n        self.level = level\n        self.threads = level * BASE\n"
           "RUN = 'true'\n")
    sc.append({"name": "includes-seq", "tasks": [T("i0", "run_experiment"), T("i1", deps=["i0"], pkg="a"), T("i2", "run_experiment", deps=["//a:i1"])],
               "extra_files": {"defs.cond": inc, "a/local.cond": inc}, "cond_prefix": {"": "include('//defs.cond')\ninclude('defs.cond')\n", "a": "include('local.cond')\ninclude('//defs.cond')\n"},
               "pre": [], "inv": {"target": "//:i2", "jobs": None, "strategy": "blocked-fifo", "seed": 19}})
    # one of the running tasks has switched to another user: signalling its process group is refused (EPERM); the
    # others must still be terminated
    sc.append({"name": "par-fan-j3-one-task-of-another-user", "tasks": fan + [gen.mk_task("", "top", "combine", [t["id"] for t in fan])],
               "pre": [], "inv": {"target": "//:top", "jobs": 3, "strategy": "blocked-fifo", "seed": 20, "script": {fan[0]["id"]: {"other_user": True}, fan[3]["id"]: {"other_user": True}}}})
    sc.append({"name": "stdout-gone-j3", "tasks": fan + [gen.mk_task("", "top", "group", [t["id"] for t in fan])], "break_stdout": True,
               "pre": [], "inv": {"target": "//:top", "jobs": 3, "strategy": "blocked-random", "seed": 13}})
    sc.append({"name": "par-fan-j3-exits-while-aborting", "tasks": fan + [gen.mk_task("", "top", "combine", [t["id"] for t in fan])], "exits_after": 0.6,
               "pre": [], "inv": {"target": "//:top", "jobs": 3, "strategy": "blocked-random", "seed": 14}})
    sc.append({"name": "par-lines", "tasks": fan + [gen.mk_task("", "top", "group", [t["id"] for t in fan])],
               "pre": [], "inv": {"target": "//:top", "jobs": 4, "strategy": "lines", "seed": 10}})
    return sc


def _argv(inv):
    argv = ["run", inv["target"]]
    if inv.get("jobs") is not None:
        argv += ["-j", str(inv["jobs"])]
    if inv.get("stop_early"):
        argv.append("--stop-early")
    if inv.get("again"):
        argv.append("--again")
    return argv


def _setup(scn, root):
    gen.write_project(root, scn["tasks"], extra_files=scn.get("extra_files"), cond_prefix=scn.get("cond_prefix"))
    for inv in scn["pre"]:
        kind, res = common.run_forked(schedsim.run_invocation, {"root": root, "argv": _argv(inv), "script": inv.get("script", {}), "strategy": inv["strategy"], "seed": inv["seed"], "outer_env": inv.get("outer_env"), "proc": inv.get("proc")}, 60)
        if kind != "ok" or res["result"].get("exit") != 0:
            return "pre-history failed: %s %s" % (kind, res if kind != "ok" else res["result"])
    return None


def count_lines(arg):
    scn, scope = arg
    with common.Scratch("cv16") as sc:
        root = os.path.join(sc.root, "p")
        err = _setup(scn, root)
        if err:
            return {"error": err}
        inv = scn["inv"]
        spec = {"root": root, "argv": _argv(inv), "script": inv.get("script", {}), "strategy": inv["strategy"], "seed": inv["seed"], "outer_env": inv.get("outer_env"), "proc": inv.get("proc"), "count_lines": True,
                "inject": {"signal": "INT", "at_line": -1, "scope": scope}}
        kind, res = common.run_forked(schedsim.run_invocation, spec, 90)
        if kind != "ok":
            return {"error": "%s %s" % (kind, res)}
        return {"n": res["lines"]["n"], "sites": res["lines"]["sites"], "exit": res["result"]}


def inject_case(arg):
    scn, k, sig, scope = arg[:4]
    second = arg[4] if len(arg) > 4 else None
    out = {"sig": None, "nontrivial": False, "reach": {}, "violations": [], "inconclusive": [], "sets": {}}
    with common.Scratch("cv16") as sc:
        root = os.path.join(sc.root, "p")
        err = _setup(scn, root)
        if err:
            out["inconclusive"].append({"why": "scenario setup failed", "detail": err})
            out["sig"] = "setup-fail"
            return out
        rows_before = sched.read_rows(root)
        inv = scn["inv"]
        spec = {"root": root, "argv": _argv(inv), "script": inv.get("script", {}), "strategy": inv["strategy"], "seed": inv["seed"], "outer_env": inv.get("outer_env"), "proc": inv.get("proc"),
                "inject": {"signal": sig, "at_line": k, "scope": scope, "break_stdout": bool(scn.get("break_stdout")), "exits_after": scn.get("exits_after"), "second": second}}
        kind, res = common.run_forked(schedsim.run_invocation, spec, 90)
        out["sig"] = "%s-%d-%s" % (scn["name"], k, sig)
        if kind != "ok":
            out["inconclusive"].append({"why": "E2 run " + kind, "detail": str(res)[-500:]})
            return out
        if res["uninterposed"]:
            out["inconclusive"].append({"why": "un-interposed primitive", "detail": res["uninterposed"]})
            return out
        if not res["lines"]["fired"]:
            out["reach"]["c16_not_fired"] = 1
            return out
        if res["result"].get("exception") == "Watchdog":
            out["inconclusive"].append({"why": "watchdog", "detail": None})
            return out
        inj = [d for t, kk, d in res["log"] if kk == "inject"][0]
        out["nontrivial"] = True
        out["reach"]["c16_injections"] = 1
        out["reach"]["c16_injections_with_live_children"] = 1 if inj["live"] else 0
        out["reach"]["c16_children_alive_at_injection"] = len(inj["live"])
        if second:
            if not res["lines"].get("fired2"):
                out["reach"]["c16_second_signal_not_reached"] = 1   # the command had already ended
            else:
                out["reach"]["c16_double_signal_injections"] = 1
                out["sets"]["second_signal_sites"] = [res["lines"].get("site2")]
        out["sets"]["sites"] = [inj["site"]]
        out["sets"]["site_states"] = ["%s|live=%d|z=%d" % (inj["site"], len(inj["live"]), len(inj["zombies"]))]
        out["sig"] = "%s|%s|live=%d|z=%d%s" % (scn["name"], inj["site"], len(inj["live"]), len(inj["zombies"]), "" if not second else "|second+%d@%s" % (second["after"], res["lines"].get("site2")))
        W = {"engine": "E2", "scenario": scn["name"], "tasks": scn["tasks"], "pre": scn["pre"], "inv": inv, "inject": spec["inject"], "site": inj["site"], "second_signal_site": res["lines"].get("site2"), "func": inj.get("func"),
             "result": res["result"], "log": res["log"][-80:], "procs": [{k2: p[k2] for k2 in ("pid", "task", "state", "status", "signals")} for p in res["procs"]]}
        r = res["result"]
        stderr = schedsim.stdout_text(res["log"], "stderr")
        if scn.get("break_stdout"):
            # the report channel itself is gone: only the termination and recording clauses are demanded
            out["reach"]["c16_broken_stdout_injections"] = 1
            r = {"exit": 1, "exception": None}
            stderr = "aborted"
        if r.get("exception") == "Deadlock":
            out["violations"].append({"key": "C16:blocked-forever-after-abort", "msg": "after %s at %s cond run blocks forever: %s" % (sig, inj["site"], r.get("deadlock")), "witness": W})
            return out
        if r.get("exception") in ("ConductorAbort", "_Abort") and "SystemExit" in r.get("traceback", ""):  # (the handler raises a subclass since the round-9 repair)
            out["violations"].append({"key": "C16:abort-during-SystemExit-propagation-prints-traceback", "msg": "%s at %s (%s): the command had already reported its error and was exiting (SystemExit in flight); the late abort surfaces as a ConductorAbort traceback (exit status still non-zero)" % (sig, inj["site"], inj.get("func")), "witness": W})
            return out
        if r.get("exception") is not None:
            out["violations"].append({"key": "C16:internal-error-instead-of-abort", "msg": "%s at %s (%s) ended with %s instead of the abort report\n%s" % (sig, inj["site"], inj.get("func"), r["exception"], r.get("traceback", "")[-1200:]), "witness": W})
            return out
        if r.get("exit") == 0:
            out["violations"].append({"key": "C16:exit-0-after-abort", "msg": "%s at %s (%s): cond run exited 0" % (sig, inj["site"], inj.get("func")), "witness": W})
            return out
        if "aborted" not in stderr:
            out["violations"].append({"key": "C16:abort-not-reported", "msg": "%s at %s: exit %s but stderr does not report the abort: %r" % (sig, inj["site"], r.get("exit"), stderr[-400:]), "witness": W})
            return out
        for p in res["procs"]:
            out["reach"]["c16_child_checks"] = out["reach"].get("c16_child_checks", 0) + 1
            if p["state"] == "running" and 15 not in p["signals"] and not (inv.get("script", {}).get(p["task"], {}).get("other_user")):
                out["violations"].append({"key": "C16:running-task-not-sent-SIGTERM", "msg": "%s at %s (%s): %s (pid %d) was started, is still running when cond returns and was never sent SIGTERM" % (sig, inj["site"], inj.get("func"), p["task"], p["pid"]), "witness": W})
                return out
        if isinstance(res["rows"], list):
            before = {(r0[0], r0[1]) for r0 in rows_before}
            ok0 = {p["task"] for p in res["procs"] if p["status"] == 0 and p["t_exit"] is not None}
            for row in res["rows"]:
                if (row[0], row[1]) in before:
                    continue
                out["reach"]["c16_row_checks"] = out["reach"].get("c16_row_checks", 0) + 1
                if row[0] not in ok0:
                    out["violations"].append({"key": "C16:version-recorded-for-unfinished-task", "msg": "row %s recorded although that task had not exited 0" % row, "witness": W})
                    return out
        out["sample"] = {"scenario": scn["name"], "signal": sig, "at_line": k, "site": inj["site"], "alive": len(inj["live"]), "result": r,
                         "killed": [[d.get("task"), d.get("sig")] for t, kk, d in res["log"] if kk == "kill"]}
    return out


def main(tier, n=None):
    S.warm()
    rep = common.Report(PROP, tier, "fault_enumeration", RULE)
    rep.assumptions = ["E2 interposed kernel (see C09)", "one or two signals per run; signals arriving before register_signal_handlers() are outside the claim",
                       "signal.raise_signal from a sys.monitoring LINE callback makes the registered handler raise in the monitored frame, exactly like a real signal at that bytecode boundary"]
    scns = scenarios()
    scope = "conductor+subprocess" if tier == "thorough" else "conductor"
    counts = common.parallel_map(count_lines, [(s, scope) for s in scns], timeout=180)
    cases = []
    total_events = 0
    all_sites = set()
    seen_noncrit = set()
    for s, (kind, c) in zip(scns, counts):
        if kind != "ok" or "error" in c:
            rep.inconc("line counting failed for " + s["name"], str(c)[-500:])
            continue
        total_events += c["n"]
        ks = set()
        for site, occ in c["sites"].items():
            all_sites.add(site)
            crit = site.startswith(CRITICAL) or site.startswith("subprocess.py")
            if tier == "thorough":
                take = occ
            elif crit:
                take = occ[:1] + occ[-1:]
            else:
                # non-critical sites (planning, parsing, reporting): once per scenario pair
                take = occ[:1] if (site, s["name"][:4]) not in seen_noncrit else []
                seen_noncrit.add((site, s["name"][:4]))
            ks.update(take)
        for i, k in enumerate(sorted(ks)):
            cases.append((s, k, "INT" if i % 2 == 0 else "TERM", scope))
    # a second SIGINT/SIGTERM while the first is being dealt with: first signal at executor / sigchld sites (tasks in
    # flight), second signal at each of the following line events (the whole abort path up to process exit)
    rng2 = common.rng_for("c16-double", common.base_seed())
    double = []
    for s, (kind, c) in zip(scns, counts):
        if kind != "ok" or "error" in c or s.get("break_stdout"):
            continue
        occ = sorted(k0 for site, ks0 in c["sites"].items() if site.startswith(("execution/executor.py", "utils/sigchld.py")) for k0 in ks0)
        if not occ:
            continue
        firsts = {occ[len(occ) // 2], occ[len(occ) * 3 // 4], occ[len(occ) // 3]} if tier == "quick" else set(rng2.sample(occ, min(len(occ), 40)))
        for k0 in sorted(firsts):
            for m in range(1, 61 if tier == "quick" else 120):
                double.append((s, k0, rng2.choice(["INT", "TERM"]), scope, {"signal": rng2.choice(["INT", "TERM"]), "after": m}))
    if tier == "quick":
        rng2.shuffle(double)
        double = double[:1500]
    cases += double
    if n:
        rng = common.rng_for("c16", common.base_seed())
        rng.shuffle(cases)
        cases = cases[:n]
    rep.extra["line_events_in_uninjected_runs"] = total_events
    rep.extra["distinct_sites_in_uninjected_runs"] = len(all_sites)
    results = common.parallel_map(inject_case, cases, timeout=200)
    rep.merge_pool(results, cases)
    # the same property with real signals on the real kernel
    from .. import procmon
    ne1 = 60 if tier == "quick" else 1500
    if n:
        ne1 = max(4, n // 50)
    c1 = procmon.gen_abort_cases(common.base_seed(), ne1)
    r1 = common.parallel_map(procmon.eval_abort_case, c1, timeout=200)
    rep.merge_pool(r1, c1)
    rep.assumptions.append("E1: real SIGINT/SIGTERM sent to a real cond run while real task processes (probes that trap SIGTERM and log it) are held in flight at gates, or at random offsets during launch bursts")
    return rep.finish(required_reach=["c16_injections", "c16_injections_with_live_children", "c16_child_checks", "c16_e1_real_signals", "c16_e1_signals_with_tasks_in_flight", "c16_e1_child_checks"])


def replay(path):
    S.warm()
    with open(path) as f:
        v = json.load(f)
    w = v["witness"]
    scn = {"name": w["scenario"], "tasks": w["tasks"], "pre": w["pre"], "inv": w["inv"]}
    out = inject_case((scn, w["inject"]["at_line"], w["inject"]["signal"], w["inject"].get("scope", "conductor"), w["inject"].get("second")))
    for x in out["violations"]:
        print(x["msg"])
        print("VIOLATION property=%s replay=%s" % (PROP, path))
    return 1 if out["violations"] else 0
