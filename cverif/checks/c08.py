"""C08 - every experiment execution gets a fresh, unique version directory; recorded versions are
never written to except by `cond clean`.

E4 histories of real CLI commands under clock scripts (several invocations inside one real
second, frozen clock, clock stepping backwards, forward jumps; only the `time` object seen by
conductor.execution.version_index is replaced).  Oracle (no model): harness listings before each
command, the probe's own listing of COND_OUT at start, Merkle hashes of recorded version
directories before/after, and the audit-hook trace of Conductor's own file-system mutations."""
import json
import os
import signal
import time

from .. import common, cli, gen, realrun

PROP = "C08"
RULE = ("histories (4-9 steps) over {run ok, run with a failing experiment, run aborted by SIGINT, --again, archive, restore of an archive made under another clock (past / far-future / colliding "
        "timestamps), gc} x clock scripts {real back-to-back, frozen, backwards step, forward jump}; non-trivial = >=2 experiment executions; distinct = hash(case)")

T0 = 1_700_000_000


def gen_case(rng):
    clock_mode = rng.choice(["real", "real", "frozen", "frozen", "back", "jump", "mixed"])
    steps = []
    n = rng.randint(4, 9)
    have_archive = False
    for i in range(n):
        r = rng.random()
        if clock_mode == "real":
            clock = None
        elif clock_mode == "frozen":
            clock = [T0]
        elif clock_mode == "back":
            clock = [T0 - 50 * i]
        elif clock_mode == "jump":
            clock = [T0 + rng.choice([0, 0, 1000, 10 ** 6]) * (i % 3)]
        else:
            clock = rng.choice([None, [T0], [T0 - 7], [T0 + 3]])
        if r < 0.55:
            outcome = rng.choice(["ok", "ok", "fail", "fail", "abort"])
            steps.append({"cmd": "run", "target": rng.choice(["//:top", "//:e1", "//a:e2", "//:top", "//:top", "//:dupdep"]), "again": rng.random() < 0.5, "outcome": outcome,
                          "victim": rng.choice(["//:e1", "//a:e2", "//a:e3", "//a/b/deep:e4"]), "jobs": rng.choice([None, None, 3]), "clock": clock})
        elif r < 0.7:
            steps.append({"cmd": "archive", "clock": clock})
            have_archive = True
        elif r < 0.85:
            steps.append({"cmd": "restore-foreign", "foreign_clock": rng.choice([[T0], [T0 - 1000], [T0 + 10 ** 7], [5]]), "clock": clock})
        else:
            steps.append({"cmd": "gc", "clock": clock})
    if rng.random() < 0.15:
        # ladder of leftovers: k executions of one experiment fail (or are aborted) within one clock second, each
        # leaving an unrecorded directory T, T+1, ...; the next execution in that same second needs yet another one
        tgt = rng.choice(["//:e1", "//a:e3", "//a:e2"])
        ck = [T0 + 77]
        ladder = [{"cmd": "run", "target": tgt, "again": True, "outcome": rng.choice(["fail", "fail", "abort"]), "victim": tgt, "jobs": None, "clock": ck} for _ in range(rng.randint(2, 4))]
        ladder.append({"cmd": "run", "target": tgt, "again": True, "outcome": "ok", "victim": tgt, "jobs": None, "clock": ck})
        steps = ladder + steps[:4]
    return {"steps": steps, "clock_mode": clock_mode, "hostile": realrun.hostile_choice(rng)}


def project(scroot, name, hostile=None):
    tasks = [gen.mk_task("", "e1", "run_experiment", par=True, args=[1, "first"], options={"stage": 1}), gen.mk_task("a", "e2", "run_experiment", ["//:e1"], par=True, args=[2], options={"stage": 2, "extra": True}),
             gen.mk_task("a", "e3", "run_experiment", par=True),
             gen.mk_task("a/b/deep", "e4", "run_experiment", ["//a:e2"], par=True, args=[4]),
             gen.mk_task("", "c", "run_command", ["//a:e2"]), gen.mk_task("", "top", "combine", ["//:c", "//a:e3", "//a:e2", "//a/b/deep:e4"])]
    # a definition Conductor must reject (the same dependency under two spellings); should it run anyway,
    # every execution still needs its own fresh directory
    dd = gen.mk_task("", "dupdep", "run_experiment", ["//:e1", "//:e1"], par=True)
    dd["dep_strs"] = [":e1", "//:e1"]
    tasks.append(dd)
    scripts = {t["id"]: {"steps": [["file", "data/o.bin", realrun.b64(os.urandom(16))], ["marker"]]} for t in tasks if t["kind"] in gen.PROC_KINDS}
    # dependents that start from their dependency's files: symbolic links (e2) / hard links (e4) into their own output
    scripts["//a:e2"]["steps"].insert(0, ["link_dep_files", "sym"])
    scripts["//a/b/deep:e4"]["steps"].insert(0, ["link_dep_files", "hard"])
    return realrun.Project(scroot, tasks, scripts, name=name, hostile=hostile)


def eval_case(case):
    cli.warm()
    out = {"sig": common.short_hash(case), "nontrivial": False, "reach": {}, "violations": [], "inconclusive": [], "sets": {}}
    R = out["reach"]

    def bump(k, n=1):
        R[k] = R.get(k, 0) + n

    with common.Scratch("cv08") as sc:
        pr = project(sc.root, "p", case.get("hostile"))
        base_scripts = json.loads(json.dumps(pr.scripts))
        nexec = 0
        hist = []
        for si, st in enumerate(case["steps"]):
            rows_before = pr.rows()
            if isinstance(rows_before, str):
                out["inconclusive"].append({"why": "index unreadable", "detail": rows_before})
                break
            max_before = max([r[1] for r in rows_before], default=0)
            rec_dirs = {pr.out_dir(r[0], r[1]): None for r in rows_before}
            for d in rec_dirs:
                rec_dirs[d] = realrun.tree_hash(d)
            dirs_before = set()
            for dp, dns, fns in os.walk(os.path.join(pr.root, "cond-out")):
                for d in dns:
                    dirs_before.add(os.path.join(dp, d))
            audit = os.path.join(sc.root, "audit-%d.jsonl" % si)
            pr.events(new_only=True)
            W = {"engine": "E4", "case": case, "step": si, "history": hist, "rows_before": rows_before}
            kw = {"audit": audit}
            if st.get("clock") is not None:
                kw["clock"] = st["clock"]
            if st["cmd"] == "run":
                pr.scripts = json.loads(json.dumps(base_scripts))
                if st["outcome"] == "fail":
                    pr.scripts[st["victim"]]["exit"] = 4
                    pr.scripts[st["victim"]]["steps"] = [["file", "leftover.txt", realrun.b64(b"from a failed run")]]
                elif st["outcome"] == "abort":
                    pr.scripts[st["victim"]]["steps"] = [["file", "leftover.txt", realrun.b64(b"from an aborted run")], ["sleep", 4000]]
                pr.write_scn()
                argv = ["run", st["target"]] + (["--again"] if st["again"] else []) + (["-j", str(st["jobs"])] if st["jobs"] else [])
                sent = {"done": False}

                def poll(pid, _sent=sent):
                    if _sent["done"] or st["outcome"] != "abort":
                        return
                    try:
                        with open(pr.log) as f:
                            data = f.read()
                    except OSError:
                        return
                    if ('"task": "%s"' % st["victim"]) in data[pr._pos:] and '"kind": "start"' in data[pr._pos:]:
                        os.kill(pid, signal.SIGINT)
                        _sent["done"] = True

                r = pr.cond(argv, timeout=60, poll=poll, **kw)
            elif st["cmd"] == "archive":
                apath = os.path.join(sc.root, "arch-%d.tar.gz" % si)
                r = pr.cond(["archive", "-o", apath], timeout=60, **kw)
            elif st["cmd"] == "gc":
                alias = os.path.join(pr.root, "cond-out", "latest")
                if os.path.isdir(os.path.join(pr.root, "cond-out", "a")) and not os.path.lexists(alias):
                    os.symlink("a", alias)  # a user-made shortcut into cond-out
                r = pr.cond(["gc"], timeout=60, **kw)
            else:
                # an archive produced by another clone of the project whose clock is somewhere else
                fr = project(sc.sub("foreign%d" % si), "f")
                fr.cond(["run", "//:top"], timeout=60, clock=st["foreign_clock"])
                apath = os.path.join(sc.root, "foreign-%d.tar.gz" % si)
                fa = fr.cond(["archive", "-o", apath], timeout=60)
                if fa.code != 0:
                    out["inconclusive"].append({"why": "foreign archive could not be produced", "detail": cli.brief(fa)})
                    break
                r = pr.cond(["restore", apath], timeout=60, **kw)
            W["result"] = cli.brief(r)
            if st["cmd"] == "run" and st["outcome"] == "abort" and r.code not in (0, None) and "aborted" in r.err:
                bump("c08_aborted_runs")
            if st["cmd"] == "run" and st["outcome"] == "fail" and r.code not in (0, None):
                bump("c08_failed_runs")
            if st["cmd"] == "restore-foreign" and r.code == 0:
                bump("c08_foreign_restores")
            hist.append({"step": st, "exit": r.code})
            if r["timed_out"]:
                out["inconclusive"].append({"why": "command timed out (watchdog)", "detail": cli.brief(r)})
                break
            # (a)+(b): every experiment execution of this command
            evs_now = pr.events(new_only=True)
            vers_now = {}
            for e in evs_now:
                if e["kind"] == "start" and pr.tb[e["task"]]["kind"] == "run_experiment":
                    try:
                        vers_now[e["task"]] = int(e["env"]["COND_OUT"].rsplit(".", 1)[1])
                    except ValueError:
                        pass
            anc = gen.ancestors_map(pr.tb)
            for x, vx in vers_now.items():
                for d in anc[x]:
                    # a dependency executed in this invocation is recorded before its dependent starts:
                    # the dependent's version id must be strictly greater
                    if d in vers_now:
                        bump("c08_in_invocation_order_checks")
                        if vx <= vers_now[d]:
                            out["violations"].append({"key": "C08:version-id-not-greater-than-recorded", "msg": "%s got version %s although its dependency %s was executed (and recorded) in the same invocation as version %s" % (x, vx, d, vers_now[d]), "witness": W})
            if out["violations"]:
                break
            if len(set(vers_now.values())) != len(vers_now):
                dup = sorted(vers_now.items(), key=lambda kv: kv[1])
                out["violations"].append({"key": "C08:version-id-handed-out-twice", "msg": "two experiment executions of one invocation share a version id: %s" % dup, "witness": W})
                break
            for e in evs_now:
                if e["kind"] != "start" or pr.tb[e["task"]]["kind"] != "run_experiment":
                    continue
                nexec += 1
                bump("c08_experiment_executions")
                co = e["env"]["COND_OUT"]
                try:
                    ver = int(co.rsplit(".", 1)[1])
                except ValueError:
                    ver = None
                if ver is None or ver <= max_before:
                    out["violations"].append({"key": "C08:version-id-not-greater-than-recorded", "msg": "%s executed into %s; recorded maximum before the command was %s" % (e["task"], co, max_before), "witness": W})
                    break
                if co in dirs_before:
                    left = [x for x in (e["listing"] if isinstance(e["listing"], list) else []) if x[0] not in ("stdout.log", "stderr.log")]
                    out["violations"].append({"key": "C08:output-directory-existed-before", "msg": "%s was given %s, which already existed before the command (leftover of an earlier unrecorded execution); entries seen by the task at start: %s" % (e["task"], co, left), "witness": W})
                    break
                lst = e["listing"]
                if not isinstance(lst, list) or any(x[0] not in ("stdout.log", "stderr.log") or x[1] != 0 for x in lst):
                    out["violations"].append({"key": "C08:output-directory-not-empty-at-start", "msg": "%s started with COND_OUT=%s containing %s" % (e["task"], co, lst), "witness": W})
                    break
            if out["violations"]:
                break
            # (c) recorded versions untouched
            for d, h in rec_dirs.items():
                bump("c08_recorded_dir_checks")
                h2 = realrun.tree_hash(d)
                if h2 != h:
                    out["violations"].append({"key": "C08:recorded-version-" + ("deleted" if h2 == "MISSING" else "modified"), "msg": "`cond %s` changed the recorded version directory %s (%s -> %s)" % (" ".join(r["argv"]), d, h, h2), "witness": W})
                    break
            if out["violations"]:
                break
            # (c') online: no FS-mutating audit event of Conductor inside a recorded version
            if os.path.exists(audit):
                with open(audit) as f:
                    for line in f:
                        try:
                            a = json.loads(line)
                        except ValueError:
                            continue
                        if a["ev"] in ("subprocess.Popen", "os.kill", "os.killpg", "sqlite3.connect"):
                            continue
                        bump("c08_audit_events")
                        for arg in a["args"][:2]:
                            if not isinstance(arg, str):
                                continue
                            ap = os.path.normpath(arg if os.path.isabs(arg) else os.path.join(pr.root, arg))
                            for d in rec_dirs:
                                if ap == d or ap.startswith(d + os.sep):
                                    out["violations"].append({"key": "C08:conductor-mutates-recorded-version", "msg": "`cond %s`: audit event %s %s targets recorded version %s" % (" ".join(r["argv"]), a["ev"], a["args"], d), "witness": W})
                                    break
            if out["violations"]:
                break
        if nexec >= 2:
            out["nontrivial"] = True
        out["violations"] = out["violations"][:1]
        out["sample"] = {"case": case, "outcomes": hist[:9]}
    return out


def main(tier, n=None):
    rep = common.Report(PROP, tier, "exploration", RULE)
    rep.assumptions = ["sequential invocations only (the property's quantifier)", "the only thing replaced is the `time` object referenced by conductor.execution.version_index; 'real' clock cases patch nothing"]
    rng = common.rng_for("c08", common.base_seed())
    total = n or (250 if tier == "quick" else 3000)
    cases = [gen_case(rng) for _ in range(total)]
    cli.warm()
    res = common.parallel_map(eval_case, cases, timeout=900)
    rep.merge_pool(res, cases)
    return rep.finish(required_reach=["c08_experiment_executions", "c08_recorded_dir_checks", "c08_audit_events", "c08_aborted_runs", "c08_failed_runs", "c08_foreign_restores"])


def replay(path):
    with open(path) as f:
        v = json.load(f)
    out = eval_case(v["witness"]["case"])
    for x in out["violations"]:
        print(x["msg"])
        print("VIOLATION property=%s replay=%s" % (PROP, path))
    return 1 if out["violations"] else 0
