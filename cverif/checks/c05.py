"""C05 - cached-result selection follows the documented compatibility rule.

Real git repositories (branches, --no-ff merges, criss-cross, detached HEAD, tags) built from a
generated commit DAG; versions recorded by real `cond run`s at checkouts and by direct row
insertion (null commits, foreign hashes, ties); observations through `cond where`, which tasks
`cond run` [--again | --at-least C | --this-commit] starts (probe events) vs reports cached, and
the COND_DEPS dependents receive.  Oracle: reference selection model over the generator's DAG."""
import json
import os
import sqlite3

from .. import common, cli, gen, realrun

PROP = "C05"
RULE = ("git histories <=12 commits (linear, branches, --no-ff merges, criss-cross, detached HEAD, HEAD on side branch), no-git / disable_git / no-commit projects x recorded versions "
        "(ancestor / non-ancestor / null / foreign commits, equal distances with different timestamps; by real runs at checkouts and by row insertion) x observations (where, run, --again, "
        "--at-least <hash|abbrev|branch|tag|annotated tag|HEAD~n|bogus|non-ancestor>, --this-commit, flag conflicts); non-trivial = >=2 recorded versions of one task; distinct = hash(case)")

FOREIGN = "f" * 40


class GitModel:
    def __init__(self):
        self.parents = {}   # cid -> [cid]
        self.hash = {}      # cid -> real hash
        self.branches = {}  # name -> cid
        self.head = None    # cid
        self.cur_branch = None
        self.tags = {}      # name -> (cid, annotated)

    def anc(self, c):
        seen, st = set(), [c]
        while st:
            x = st.pop()
            if x in seen:
                continue
            seen.add(x)
            st.extend(self.parents[x])
        return seen

    def by_hash(self):
        return {h: c for c, h in self.hash.items()}


def build_repo(rng, root, ncommits):
    m = GitModel()
    g = lambda *a: realrun.git(root, *a)
    g("init", "-q", "-b", "main")
    n = 0

    def commit(parents):
        nonlocal n
        cid = "c%d" % n
        n += 1
        m.parents[cid] = parents
        m.hash[cid] = g("rev-parse", "HEAD")
        m.head = cid
        if m.cur_branch:
            m.branches[m.cur_branch] = cid
        return cid

    with open(os.path.join(root, "src.txt"), "w") as f:
        f.write("0\n")
    with open(os.path.join(root, ".gitignore"), "w") as f:
        f.write("cond-out\n")
    g("add", "-A")
    g("commit", "-q", "-m", "c0")
    m.cur_branch = "main"
    commit([])
    bn = 0
    while n < ncommits:
        r = rng.random()
        if r < 0.5 or len(m.branches) == 1 and r < 0.7:
            g("commit", "-q", "--allow-empty", "-m", "c%d" % n)
            commit([m.head])
        elif r < 0.7:
            base = rng.choice(sorted(m.parents))
            bn += 1
            name = "b%d" % bn
            g("checkout", "-q", "-b", name, m.hash[base])
            m.cur_branch = name
            m.branches[name] = base
            m.head = base
        elif r < 0.8 and len(m.branches) > 1:
            name = rng.choice(sorted(m.branches))
            g("checkout", "-q", name)
            m.cur_branch = name
            m.head = m.branches[name]
        else:
            others = [b for b in sorted(m.branches) if b != m.cur_branch and m.branches[b] not in m.anc(m.head)]
            if not others:
                continue
            o = rng.choice(others)
            g("merge", "-q", "--no-ff", "-m", "merge c%d" % n, o)
            commit([m.head, m.branches[o]])
    # tags
    for i in range(rng.randint(0, 3)):
        c = rng.choice(sorted(m.parents))
        ann = rng.random() < 0.5
        name = "t%d" % i
        if ann:
            g("tag", "-a", "-m", "annotated", name, m.hash[c])
        else:
            g("tag", name, m.hash[c])
        m.tags[name] = (c, ann)
    return m


def build_unequal_merge(rng, root, side_len, main_len, merge_into_side):
    r"""A --- B.. ----------- M     two branches of different length merged; versions will be recorded at
        \                  /      both tips, so 'fewest separating commits' and any first-parent /
         s1 --- s2 --- s3          generation-count shortcut disagree"""
    m = GitModel()
    g = lambda *a: realrun.git(root, *a)
    g("init", "-q", "-b", "main")
    with open(os.path.join(root, "src.txt"), "w") as f:
        f.write("0\n")
    with open(os.path.join(root, ".gitignore"), "w") as f:
        f.write("cond-out\n")
    g("add", "-A")
    g("commit", "-q", "-m", "A")
    n = [0]

    def commit(parents, branch):
        cid = "c%d" % n[0]
        n[0] += 1
        m.parents[cid] = parents
        m.hash[cid] = g("rev-parse", "HEAD")
        m.head = cid
        m.branches[branch] = cid
        return cid

    m.cur_branch = "main"
    a = commit([], "main")
    g("checkout", "-q", "-b", "side")
    prev = a
    for i in range(side_len):
        g("commit", "-q", "--allow-empty", "-m", "s%d" % i)
        prev = commit([prev], "side")
    side_tip = prev
    g("checkout", "-q", "main")
    prev = a
    for i in range(main_len):
        g("commit", "-q", "--allow-empty", "-m", "m%d" % i)
        prev = commit([prev], "main")
    main_tip = prev
    if merge_into_side:
        g("checkout", "-q", "side")
        g("merge", "-q", "--no-ff", "-m", "M", "main")
        commit([side_tip, main_tip], "side")
        m.cur_branch = "side"
    else:
        g("merge", "-q", "--no-ff", "-m", "M", "side")
        commit([main_tip, side_tip], "main")
        m.cur_branch = "main"
    return m, side_tip, main_tip


def select(rows, model, head, git_mode):
    """rows: [(ts, commit_hash|None)] of one task -> selected (ts, commit) or None"""
    if not rows:
        return None
    if git_mode != "git" or head is None:
        return max(rows, key=lambda r: r[0])
    bh = model.by_hash()
    A = model.anc(head)
    cand = [(ts, ch) for ts, ch in rows if ch is not None and bh.get(ch) in A]
    if cand:
        return min(cand, key=lambda r: (len(A - model.anc(bh[r[1]])), -r[0]))
    if all(ch is None for ts, ch in rows):
        return max(rows, key=lambda r: r[0])
    return None


def gen_case(rng):
    git_mode = rng.choice(["git"] * 8 + ["nogit", "disabled", "nocommit"])
    c = {"seed": rng.randrange(1 << 30), "git_mode": git_mode, "ncommits": rng.randint(1, 12), "nobs": rng.randint(3, 7), "hostile": realrun.hostile_choice(rng)}
    if git_mode == "git" and rng.random() < 0.18:
        c.update(shape="no-ancestor-mix")
    elif git_mode == "git" and rng.random() < 0.2:
        c.update(shape="unequal-merge", side_len=rng.randint(1, 4), main_len=rng.randint(1, 3), merge_into_side=rng.random() < 0.5)
        if rng.random() < 0.35:
            # both tips equally far from the merge: only the timestamps decide; recording orders A,B,A / B,A,B / ...
            c.update(main_len=c["side_len"], tie=rng.choice(["aba", "aba", "abab", "ab", "aab", "abb"]))
    return c


def eval_case(case):
    cli.warm()
    rng = common.rng_for("c05case", case["seed"])
    out = {"sig": common.short_hash(case), "nontrivial": False, "reach": {}, "violations": [], "inconclusive": [], "sets": {}}
    R = out["reach"]

    def bump(k, n=1):
        R[k] = R.get(k, 0) + n

    with common.Scratch("cv05") as sc:
        tasks = [gen.mk_task("", "e1", "run_experiment"), gen.mk_task("x", "e2", "run_experiment", ["//:e1"]), gen.mk_task("", "c", "run_command", ["//x:e2", "//:e1"]),
                 # the same experiments reached ONLY through (nested) groups
                 gen.mk_task("x", "gg", "group", ["//x:e2", "//:e1"]), gen.mk_task("", "top", "group", ["//x:gg"])]
        scripts = {t["id"]: {"steps": [["file", "o.txt", realrun.b64(b"x")]]} for t in tasks}
        gm = case["git_mode"]
        pr = realrun.Project(sc.root, tasks, scripts, disable_git=(gm == "disabled"), hostile=case.get("hostile"))
        root = pr.root
        model = None
        shape_tips = None
        if gm == "git" and case.get("shape") == "unequal-merge":
            model, st, mt = build_unequal_merge(rng, root, case["side_len"], case["main_len"], case["merge_into_side"])
            shape_tips = (st, mt)
        elif gm in ("git", "disabled"):
            model = build_repo(rng, root, case["ncommits"])  # the project files are part of the first commit
        elif gm == "nocommit":
            realrun.git(root, "init", "-q", "-b", "main")
        log = []

        def head_hash():
            return model.hash[model.head] if (model and gm == "git") else None

        def rows_of(tid):
            return [(r[1], r[2]) for r in pr.rows() if r[0] == tid]

        def insert_version(tid, ts, commit):
            pr.cond(["where", "-f", "//:c"])  # makes sure the index exists (created by Conductor itself)
            dbp = os.path.join(root, "cond-out", "version_index.sqlite")
            c = sqlite3.connect(dbp)
            c.execute("INSERT INTO version_index (task_identifier, timestamp, git_commit_hash, has_uncommitted_changes) VALUES (?,?,?,0)", (tid, ts, commit))
            c.commit()
            c.close()
            d = pr.out_dir(tid, ts)
            os.makedirs(d, exist_ok=True)
            open(os.path.join(d, "o.txt"), "w").write("inserted")

        # ---- phase 1: record versions
        nver = rng.randint(0, 6)
        ts_base = 1000
        if case.get("shape") == "no-ancestor-mix" and model:
            # only versions that carry no commit, a commit unknown to this repository, or a commit that is
            # not an ancestor of HEAD: nothing may be reused unless ALL of them lack a commit
            nver = 0
            realrun.git(root, "checkout", "-q", "-b", "elsewhere", model.hash["c0"])
            realrun.git(root, "commit", "-q", "--allow-empty", "-m", "not an ancestor")
            na = realrun.git(root, "rev-parse", "HEAD")
            model.parents["x-na"] = ["c0"]
            model.hash["x-na"] = na
            realrun.git(root, "checkout", "-q", model.cur_branch or model.hash[model.head])
            kinds = rng.choice([["null", "foreign"], ["foreign", "null"], ["null", "foreign", "null"], ["null", "nonanc"], ["null", "null"], ["foreign"], ["nonanc", "foreign", "null"], ["null"]])
            for j, kd in enumerate(kinds):
                commit = {"null": None, "foreign": FOREIGN, "nonanc": na}[kd]
                for tid in ("//:e1", "//x:e2"):
                    insert_version(tid, 700 + j, commit)
                    log.append(["insert", tid, 700 + j, kd])
        if shape_tips:
            nver = rng.randint(0, 2)
            order = list(shape_tips)
            rng.shuffle(order)
            if rng.random() < 0.5:
                order = order[:1]   # versions on ONE side of the merge only (first- or second-parent side)
            seq = order * rng.choice([1, 2, 2])          # X@A, Y@B, Z@A, ...
            if rng.random() < 0.5:
                seq = seq[:3]
            if case.get("tie"):
                nver = 0
                order = list(shape_tips)
                rng.shuffle(order)
                seq = [order[0] if ch == "a" else order[1] for ch in case["tie"]]
            tss = list(range(500, 500 + len(seq)))
            if rng.random() < 0.4:
                rng.shuffle(tss)                          # insertion order unrelated to timestamp order
            for j, c in enumerate(seq):
                for tid in ("//:e1", "//x:e2"):
                    insert_version(tid, tss[j], model.hash[c])
                    log.append(["insert", tid, tss[j], c])
        for i in range(nver):
            tid = rng.choice(["//:e1", "//:e1", "//x:e2"])
            how = rng.random()
            if model and gm == "git" and how < 0.3:
                # a real run at a checkout
                c = rng.choice(sorted(model.parents))
                realrun.git(root, "checkout", "-q", model.hash[c])
                dirty = rng.random() < 0.3
                if dirty:
                    open(os.path.join(root, "src.txt"), "a").write("dirty\n")
                r = pr.cond(["run", tid, "--again"], timeout=120)
                if dirty:
                    realrun.git(root, "checkout", "-q", "--", "src.txt")
                realrun.git(root, "checkout", "-q", model.cur_branch or model.hash[model.head])
                log.append(["run-at", tid, c, r.code])
            else:
                if model and gm == "git":
                    commit = rng.choice([None, FOREIGN] + [model.hash[c] for c in sorted(model.parents)] * 2)
                else:
                    commit = rng.choice([None, None, FOREIGN])
                ts = ts_base + rng.choice([i, i, rng.randint(0, 10)])
                if any(t0 == ts for t0, _ in rows_of(tid)):
                    ts = ts_base + 50 + i
                insert_version(tid, ts, commit)
                log.append(["insert", tid, ts, commit])
        # ---- phase 2: position HEAD
        if model and gm == "git":
            pos = rng.random() if not shape_tips else 1.0
            if pos < 0.3:
                c = rng.choice(sorted(model.parents))
                realrun.git(root, "checkout", "-q", model.hash[c])
                model.head = c
                model.cur_branch = None
            if rng.random() < 0.25:
                open(os.path.join(root, "src.txt"), "a").write("dirty\n")
        # ---- phase 3: observations
        for oi in range(case["nobs"]):
            kind = rng.choice(["where", "where", "run", "run", "atleast", "atleast", "atleast", "thiscommit", "again", "flagconflict"])
            if oi == 0 and case.get("shape") == "no-ancestor-mix":
                kind = rng.choice(["where", "run", "run"])
            hh = head_hash()
            allrows = pr.rows()
            if isinstance(allrows, str):
                out["inconclusive"].append({"why": "index unreadable", "detail": allrows})
                break
            per = {t: [(r[1], r[2]) for r in allrows if r[0] == t] for t in ("//:e1", "//x:e2")}
            if any(len(v) >= 2 for v in per.values()):
                out["nontrivial"] = True
            sel = {t: select(per[t], model, model.head if (model and gm == "git") else None, gm) for t in per}
            W = {"engine": "E4", "case": case, "log": log, "observation": kind, "rows": allrows, "git": None if not model else {"parents": model.parents, "hash": model.hash, "head": model.head, "tags": model.tags, "branches": model.branches},
                 "model_selection": sel}
            if kind == "where":
                tid = rng.choice(["//:e1", "//x:e2"])
                r = pr.cond(["where", tid])
                bump("c05_where_checks")
                W["result"] = cli.brief(r)
                s = sel[tid]
                if "Traceback" in r.err:
                    out["violations"].append({"key": "C05:where-traceback", "msg": "cond where %s: %s" % (tid, r.err[-400:]), "witness": W})
                    break
                if s is None:
                    if r.code == 0:
                        key = "C05:non-ancestor-version-reused" if per[tid] else "C05:where-reports-nonexistent-version"
                        out["violations"].append({"key": key, "msg": "cond where %s printed %s but no recorded version is compatible with HEAD (rows %s)" % (tid, r.out.strip(), per[tid]), "witness": W})
                        break
                else:
                    want = pr.out_dir(tid, s[0])
                    if r.code != 0 or os.path.realpath(r.out.strip()) != os.path.realpath(want):
                        out["violations"].append({"key": "C05:wrong-version-selected", "msg": "cond where %s -> exit %s %r; model selects version %s (commit %s) of %s" % (tid, r.code, r.out.strip(), s[0], s[1], per[tid]), "witness": W})
                        break
                log.append(["where", tid, r.code])
                continue
            # ---- run-like observations
            run_target = rng.choice(["//:c", "//:c", "//:top"])
            argv = ["run", run_target]
            at = None
            expect_err = None
            if kind == "again":
                argv.append("--again")
            elif kind == "thiscommit":
                argv.append("--this-commit")
                at = ("HEAD", model.head if (model and gm == "git") else None)
                if gm != "git":
                    expect_err = "unsupported"
            elif kind == "flagconflict":
                argv += rng.choice([["--again", "--this-commit"], ["--this-commit", "--at-least", "HEAD"], ["--again", "--at-least", "HEAD"]])
                expect_err = "conflict"
            elif kind == "atleast":
                if gm != "git":
                    argv += ["--at-least", "HEAD"]
                    expect_err = "unsupported"
                else:
                    form = rng.choice(["full", "abbrev", "branch", "tag", "tag", "headn", "bogus"])
                    c = None
                    sym = None
                    if form in ("full", "abbrev"):
                        c = rng.choice(sorted(model.parents))
                        sym = model.hash[c] if form == "full" else model.hash[c][:10]
                    elif form == "branch":
                        sym = rng.choice(sorted(model.branches))
                        c = model.branches[sym]
                    elif form == "tag" and model.tags:
                        sym = rng.choice(sorted(model.tags))
                        c = model.tags[sym][0]
                        W["annotated_tag"] = model.tags[sym][1]
                    elif form == "headn":
                        k = rng.randint(0, 3)
                        c = model.head
                        ok = True
                        for _ in range(k):
                            if not model.parents[c]:
                                ok = False
                                break
                            c = model.parents[c][0]
                        sym = "HEAD~%d" % k
                        if not ok:
                            c = None
                            expect_err = "invalid"
                    if sym is None:
                        sym = "no-such-ref"
                        expect_err = "invalid"
                    argv += ["--at-least", sym]
                    at = (sym, c)
                    if c is not None and c not in model.anc(model.head):
                        expect_err = "notancestor"
            if expect_err is None and at is not None and at[1] is None:
                expect_err = "invalid"
            # model: which tasks must run
            def must_run(tid):
                s = sel[tid]
                if kind == "again":
                    return True
                if s is None:
                    return True
                if at is None or kind == "flagconflict":
                    return False
                if s[1] is None:
                    return True
                Ch = model.hash[at[1]]
                if s[1] == Ch:
                    return False
                bh = model.by_hash()
                return bh.get(s[1]) in model.anc(at[1])
            pr.events(new_only=True)
            r = pr.cond(argv, timeout=120)
            evs = pr.events(new_only=True)
            W["argv"] = argv
            W["result"] = cli.brief(r)
            started = [e["task"] for e in evs if e["kind"] == "start"]
            if "Traceback" in r.err:
                out["violations"].append({"key": "C05:run-traceback", "msg": "cond %s: %s" % (" ".join(argv), r.err[-500:]), "witness": W})
                break
            if expect_err:
                bump("c05_flag_rejection_checks")
                if r.code == 0 or started:
                    out["violations"].append({"key": "C05:invalid-flags-accepted-" + expect_err, "msg": "cond %s should be rejected (%s) but exit=%s, started=%s" % (" ".join(argv), expect_err, r.code, started), "witness": W})
                    break
                log.append(["run-rejected", argv[2:], expect_err])
                continue
            # plan model
            exp_run = []
            if must_run("//x:e2"):
                exp_run.append("//x:e2")
                if must_run("//:e1"):
                    exp_run.append("//:e1")
            else:
                if must_run("//:e1"):
                    exp_run.append("//:e1")
            bump("c05_run_checks")
            if kind == "atleast":
                bump("c05_at_least_checks")
            if r.code != 0:
                out["violations"].append({"key": "C05:valid-invocation-rejected", "msg": "cond %s failed: %s" % (" ".join(argv), r.err[-300:]), "witness": W})
                break
            got_run = sorted(t for t in started if t != "//:c")
            if run_target == "//:top":
                bump("c05_run_checks_through_groups")
            if got_run != sorted(exp_run):
                extra = sorted(set(got_run) - set(exp_run))
                missing = sorted(set(exp_run) - set(got_run))
                if kind == "atleast" and extra and W.get("annotated_tag"):
                    key = "C05:at-least-annotated-tag-reruns-exact-match"
                elif kind == "atleast":
                    key = "C05:at-least-rule-" + ("reran-up-to-date-task" if extra else "reused-too-old-version")
                elif kind == "again":
                    key = "C05:again-reused-cache"
                else:
                    key = "C05:" + ("reran-although-compatible-version-exists" if extra else "reused-incompatible-version")
                out["violations"].append({"key": key, "msg": "cond %s executed %s, model %s (selection %s; rows %s)" % (" ".join(argv), got_run, sorted(exp_run), sel, per), "witness": W})
                break
            # COND_DEPS of the dependent //:c
            cst = [e for e in evs if e["kind"] == "start" and e["task"] == "//:c"]
            if cst:
                bump("c05_deps_checks")
                got = cst[0]["env"].get("COND_DEPS", "").split(":")
                want = []
                for t in ("//x:e2", "//:e1"):
                    if t in started:
                        want.append([e for e in evs if e["kind"] == "start" and e["task"] == t][0]["env"]["COND_OUT"])
                    else:
                        want.append(pr.out_dir(t, sel[t][0]))
                if [os.path.realpath(p) for p in got] != [os.path.realpath(p) for p in want]:
                    out["violations"].append({"key": "C05:dependent-received-other-version", "msg": "//:c got COND_DEPS=%s, model %s" % (got, want), "witness": W})
                    break
            log.append(["run", argv[2:], got_run])
        out["sample"] = {"case": case, "log": log[:12], "commits": None if not model else {k: v for k, v in list(model.parents.items())[:12]}}
    return out


def main(tier, n=None):
    rep = common.Report(PROP, tier, "exploration", RULE)
    rep.assumptions = ["distance = |anc*(HEAD) \\ anc*(v)| (the documentation's 'number of commits separating'; equals git rev-list --count HEAD ^v on every DAG)",
                       "recorded versions whose commit hash is unknown to the repository are non-ancestors", "dirtiness is produced by content changes only (no stat races)"]
    rng = common.rng_for("c05", common.base_seed())
    total = n or (300 if tier == "quick" else 4000)
    cases = [gen_case(rng) for _ in range(total)]
    cli.warm()
    res = common.parallel_map(eval_case, cases, timeout=900)
    rep.merge_pool(res, cases)
    return rep.finish(required_reach=["c05_where_checks", "c05_run_checks", "c05_at_least_checks", "c05_flag_rejection_checks", "c05_deps_checks"])


def replay(path):
    with open(path) as f:
        v = json.load(f)
    out = eval_case(v["witness"]["case"])
    for x in out["violations"]:
        print(x["msg"])
        print("VIOLATION property=%s replay=%s" % (PROP, path))
    return 1 if out["violations"] else 0
