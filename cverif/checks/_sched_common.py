"""Shared driver of the E2-based scheduling checks (C01, C02, C03, C04, C09)."""
import json
import os

from .. import common, sched, schedsim


def warm():
    common.import_repo()
    import conductor.__main__  # noqa: F401  (imported once; every case forks from here)
    try:  # lazily imported by Context(); heavy (grpc, fabric) - import once before forking
        import conductor.envs.manager_impl  # noqa: F401
    except ImportError:
        pass
    import concurrent.futures.thread  # noqa: F401
    import sqlite3  # noqa: F401


def run(prop, tier, level, rule, plan, required, n_override=None, extra_cases=None, assumptions=(), e1=None, post=None, post_fn=None):
    """plan: list of (focus, n_quick, n_thorough, strategies|None, max_tasks)"""
    warm()
    rep = common.Report(prop, tier, level, rule)
    rep.assumptions = list(assumptions) + [
        "E2: process primitives (fork_exec, waitpid, getpgid, killpg, kill, blocking pipe read) are an interposed model that only produces behaviours Linux can produce; everything else (CLI, planner, executor, SIGCHLD helper, CPython subprocess.Popen lifecycle, SQLite, files) is the real code",
        "reference model: DFS over the generator's DAG that stops at experiments with a recorded version (rows read through an independent sqlite3 connection)",
    ]
    seed = common.base_seed()
    cases = []
    for focus, nq, nt, strategies, max_tasks in plan:
        n = nq if tier == "quick" else nt
        if n_override:
            n = max(1, n_override * n // max(1, sum(p[1] if tier == "quick" else p[2] for p in plan)))
        cases += [(c, [prop]) for c in sched.gen_cases(seed, n, focus, strategies, max_tasks)]
    if extra_cases:
        cases += [(c, [prop]) for c in extra_cases(tier, seed)]
    results = common.parallel_map(sched.eval_case, cases, timeout=240)
    rep.merge_pool(results, cases)
    if e1:
        # the same property on the real kernel with real processes (gated probes + controller)
        from .. import procmon
        focus, nq, nt, max_tasks = e1
        n1 = nq if tier == "quick" else nt
        if n_override:
            n1 = max(4, n_override // 10)
        c1 = [(c, [prop]) for c in procmon.gen_cases(seed, n1, focus, max_tasks)]
        r1 = common.parallel_map(procmon.eval_case, c1, timeout=300)
        rep.merge_pool(r1, c1)
        rep.assumptions.append("E1: real kernel and processes; task = probe blocked on a FIFO gate; the controller releases tasks only when Conductor's main thread is blocked in its self-pipe read and all started tasks have reached their gate")
    if post:
        from .. import procmon
        pc = post(tier, n_override)
        rp = common.parallel_map(post_fn or procmon.soak_case, pc, nproc=16, timeout=900)
        rep.merge_pool(rp, pc)
    return rep, rep.finish(required_reach=required)


def replay(prop, path):
    warm()
    with open(path) as f:
        v = json.load(f)
    w = v["witness"]
    case = {"family": "replay", "tasks": w["tasks"], "history": w["history"]}
    out = sched.eval_case((case, [prop]))
    for x in out["violations"]:
        print(x["msg"])
        print("VIOLATION property=%s replay=%s" % (prop, path))
    return 1 if out["violations"] else 0
