"""C10 - recorded stdout/stderr and argument records are exact (E1: real processes writing
scripted byte streams; byte-equality oracle against the generator's payload)."""
import base64
import json
import math
import os
import re

from .. import common, cli, gen, realrun

PROP = "C10"
RULE = ("1-3 run_experiment tasks per project, each writing scripted chunks to fd 1 / fd 2 (sizes 0,1,4095,4096,4097,65536,65537,1 MiB; thorough also 8 MiB; byte classes ASCII / all 256 values / "
        "invalid UTF-8 / NUL / CR-LF / ESC; either stream first; interleaved; early close of one fd; a lingering grandchild that keeps the pipe open and writes later) x sequential (teed) / "
        "parallel slot (-j, logged only) / non-parallelizable under -j x succeeding and failing tasks x args/options over all primitive types; distinct = hash(case); non-trivial = >= 1 KiB written or binary bytes")

SIZES_Q = [0, 1, 2, 100, 4095, 4096, 4097, 65536, 65537, 200000, 1 << 20]
SIZES_T = SIZES_Q + [8 << 20]
VALS = [0, 1, 1.0, 0.0, -5, 2.5, 1e-07, float("inf"), float("-inf"), float("nan"), True, False, "", "s", "two words", "unié", 10 ** 20, "--flag", "$HOME", "tab\there", "1", "true", "1.0"]
ESC = re.compile(rb"\x1b\[[0-9;]*m[^\x1b]*\x1b\[0m")


def payload(rng, size, cls, teed):
    if size == 0:
        return b""
    if cls == "ascii":
        alpha = b"abcdefghijklmnopqrstuvwxyz0123456789 ,.-\n"
    elif cls == "all":
        alpha = bytes(range(256))
    elif cls == "badutf8":
        alpha = b"\xff\xfe\xc0\x80ab\xe2\x28\xa1\n"
    elif cls == "nulcr":
        alpha = b"\0\r\n\r\nab\t"
    else:
        alpha = b"\x1b[31mab\x1b[0m\n"
    if teed:
        alpha = bytes(b for b in alpha if b != 0x1b) or b"a"
    # cheap pseudo-random fill: a random block repeated with a counter so that offsets are identifiable
    block = bytes(rng.choice(alpha) for _ in range(min(size, 997)))
    reps = size // len(block) + 1
    return (block * reps)[:size]


def gen_case(rng, tier):
    sizes = SIZES_T if tier == "thorough" else SIZES_Q
    mode = rng.choice(["seq", "seq", "par", "nonpar-under-j"])
    teed = mode != "par"
    ntask = rng.choice([1, 1, 2, 3])
    tasks, scripts, expect = [], {}, {}
    big_used = False
    for i in range(ntask):
        name = "e%d" % i
        pkg = rng.choice(["", "a", "a/b"])
        steps, o1, o2 = [], [], []
        reopened = False
        nchunks = rng.choice([0, 1, 2, 3, 6])
        for _ in range(nchunks):
            size = rng.choice(sizes)
            if size >= (1 << 20):
                if big_used:
                    size = 4097
                big_used = True
            fd = rng.choice([1, 1, 2])
            data = payload(rng, size, rng.choice(["ascii", "all", "badutf8", "nulcr", "esc"]), teed)
            steps.append(["out", fd, realrun.b64(data)])
            (o1 if fd == 1 else o2).append(data)
        if nchunks and rng.random() < 0.12:
            # after having written something, the command opens its stream again by name (shell: `echo done > /dev/stderr`,
            # `... >> /dev/stdout`, `| tee /dev/stderr`) and writes a little more
            fd = rng.choice([1, 2])
            how = rng.choice(["append", "truncate"])
            more = payload(rng, rng.choice([1, 17, 300]), "ascii", teed)
            steps.append(["reopen", fd, how, realrun.b64(more)])
            (o1 if fd == 1 else o2).append(more)
            reopened = True
        if rng.random() < 0.15:
            # the command leaves its own entry under the name of a record (a warm start that copies the previous
            # version into $COND_OUT, a tool that dumps its arguments as args.json, `mkdir options.json`): the records
            # must still be exactly the declared ones, and absent when nothing is declared
            for fname in rng.sample(["args.json", "options.json"], rng.choice([1, 2])):
                how = rng.choice(["file", "dir", "dangling-link"])
                if how == "file":
                    steps.append(["file", fname, realrun.b64(b'[1, "stale"]' if fname == "args.json" else b'{"stale": 2}')])
                elif how == "dir":
                    steps.append(["file", fname + "/inner.txt", realrun.b64(b"x")])
                else:
                    steps.append(["symlink", fname, "nowhere-%d" % rng.randrange(1000)])
        extra = rng.choice([None, None, None, "close1", "close2", "bg"])
        if extra == "close1":
            steps.append(["close", 1])
        elif extra == "close2":
            steps.append(["close", 2])
        elif extra == "bg":
            late = payload(rng, rng.choice([1, 4096, 70000]), "ascii", teed)
            steps.append(["bg", rng.choice([30, 120]), realrun.b64(late)])
            o1.append(late)
        fail = rng.random() < 0.15
        args = [rng.choice(VALS) for _ in range(rng.choice([0, 0, 1, 3, 5]))]
        opts = {k: rng.choice(VALS) for k in rng.sample(["k", "zeta", "alpha", "B", "m-n", "x_y"], rng.choice([0, 0, 1, 3]))}
        t = gen.mk_task(pkg, name, "run_experiment", [tasks[-1]["id"]] if (tasks and rng.random() < 0.5 and not fail) else [], par=(mode == "par"), args=args, options=opts)
        tasks.append(t)
        scripts[t["id"]] = {"steps": steps, "exit": 3 if fail else 0}
        expect[t["id"]] = {"out": realrun.b64(b"".join(o1)), "err": realrun.b64(b"".join(o2)), "fail": fail, "reopened": reopened}
    if rng.random() < 0.25 and len(tasks) >= 2:
        # values that compare equal in Python but are of different types must stay distinct per task
        fam = rng.choice([[[1], [True], [1.0]], [[0, "x"], [False, "x"], [0.0, "x"]], [[1, 2], [1.0, 2], [True, 2]]])
        ofam = rng.choice([[{"k": 1}, {"k": True}, {"k": 1.0}], [{"k": 0}, {"k": False}, {"k": 0.0}]])
        for i, t in enumerate(tasks):
            t["args"] = list(fam[i % 3])
            t["options"] = dict(ofam[(i + 1) % 3])
    top = gen.mk_task("", "top", "group", [t["id"] for t in tasks])
    tasks.append(top)
    case = {"hostile": realrun.hostile_choice(rng), "tasks": gen.dump(tasks), "scripts": scripts, "expect": expect, "mode": mode, "jobs": {"seq": None, "par": rng.choice([2, 3]), "nonpar-under-j": 3}[mode]}
    if teed and rng.random() < 0.12:
        # nobody reads Conductor's own stdout / stderr any more: forwarding cannot work, recording must
        case["broken_stdio"] = rng.choice([[1], [2], [1, 2]])
    return case


def same_value(a, b):
    if type(a) is not type(b):
        return False
    if isinstance(a, float):
        return (math.isnan(a) and math.isnan(b)) or a == b
    return a == b


def eval_case(case):
    cli.warm()
    if "seed" in case and "tasks" not in case:
        # payloads are generated inside the worker (an 8 MiB chunk must not travel through the pool)
        seed_case = dict(case)
        case = gen_case(common.rng_for("c10case", case["seed"]), case["tier"])
        case["seed_case"] = seed_case
    out = {"sig": common.short_hash([case["mode"], case["expect"], [(t["args"], sorted(map(str, t["options"].items()))) for t in case["tasks"]]]),
           "nontrivial": False, "reach": {}, "violations": [], "inconclusive": [], "sets": {}}
    R = out["reach"]

    def bump(k, n=1):
        R[k] = R.get(k, 0) + n

    with common.Scratch("cv10") as sc:
        tasks = [gen.Task(t) for t in case["tasks"]]
        # the probe parses its own argv only up to the task id; shell-active arg values are fine here
        pr = realrun.Project(sc.root, tasks, case["scripts"], hostile=case.get("hostile"))
        argv = ["run", "//:top"] + (["-j", str(case["jobs"])] if case["jobs"] else [])
        kwx = {}
        if case.get("broken_stdio"):
            kwx["broken_stdio"] = case["broken_stdio"]
            bump("c10_runs_with_conductors_own_stdio_broken")
        if any(st[0] in ("file", "symlink") and st[1].split("/")[0] in ("args.json", "options.json") for sc0 in case["scripts"].values() for st in sc0["steps"]):
            bump("c10_runs_with_an_entry_left_under_a_records_name")
        r = pr.cond(argv, timeout=300, stall_check=True, **kwx)
        evs = pr.events()
        slim = {"tasks": [{k: t[k] for k in ("id", "kind", "deps", "par", "args", "options")} for t in case["tasks"]], "mode": case["mode"], "jobs": case["jobs"],
                "scripts": {k: {"exit": v["exit"], "steps": [[s[0], s[1], "<%d bytes>" % len(base64.b64decode(s[2]))] if s[0] in ("out",) else s[:2] for s in v["steps"]]} for k, v in case["scripts"].items()}}
        W = {"engine": "E1", "case_summary": slim, "case": case.get("seed_case") or (case if sum(len(v["out"]) + len(v["err"]) for v in case["expect"].values()) < 200000 else None), "result": cli.brief(r)}
        if r.get("stalled"):
            # decided on the process states, not on elapsed time: every thread of Conductor and of the task sleeps in an
            # untimed blocking call, nobody consumed a CPU tick across six samples, and the task is blocked in write()
            # on the pipe Conductor gave it: the bytes it is writing can never reach the log
            W["stalled_state"] = r["stalled"]
            blocked = [x for x in r["stalled"] if len(x) > 2 and str(x[2]).startswith("write")]
            out["violations"].append({"key": "C10:task-output-pipe-never-drained", "msg": "cond %s: the task is blocked forever in write() on its output pipe (%s) while every Conductor thread sleeps; what it writes (%s) never reaches the log" % (
                " ".join(argv), blocked[:2], {k: [s0[1], s0[2]] for k, v in slim["scripts"].items() for s0 in v["steps"] if s0[0] == "out"}), "witness": W})
            return out
        if r["timed_out"]:
            out["inconclusive"].append({"why": "cond run timed out (watchdog)", "detail": cli.brief(r)})
            return out
        started = [e for e in evs if e["kind"] == "start"]
        order = [e["task"] for e in started]
        anyfail = any(case["expect"][t]["fail"] for t in order)
        fwd_out, fwd_err = [], []
        for e in started:
            tid = e["task"]
            exp = case["expect"][tid]
            want_out, want_err = base64.b64decode(exp["out"]), base64.b64decode(exp["err"])
            if len(want_out) + len(want_err) >= 1024:
                out["nontrivial"] = True
            d = e["env"]["COND_OUT"]
            has_bg = any(s0[0] == "bg" for s0 in case["scripts"][tid]["steps"])
            for fname, want, key in (("stdout.log", want_out, "stdout"), ("stderr.log", want_err, "stderr")):
                if has_bg and case["mode"] == "par":
                    # logged-only mode: the lingering grandchild writes into the log file itself, after
                    # Conductor (rightly) finished the task; let it finish before comparing
                    import time as _t
                    for _ in range(100):
                        try:
                            if os.path.getsize(os.path.join(d, fname)) >= len(want):
                                break
                        except OSError:
                            pass
                        _t.sleep(0.03)
                try:
                    with open(os.path.join(d, fname), "rb") as f:
                        got = f.read()
                except OSError as ex:
                    got = None
                bump("c10_log_files_compared")
                bump("c10_bytes_compared", len(want))
                if got is None:
                    out["violations"].append({"key": "C10:log-file-missing", "msg": "%s: %s missing in %s" % (tid, fname, d), "witness": W})
                elif got != want and exp.get("reopened") and case["mode"] == "par":
                    # logged-only mode hands the command a regular file: re-opening it by name truncates it (or, for an
                    # append, lets Conductor's own descriptor overwrite what was appended)
                    out["violations"].append({"key": "C10:log-damaged-when-the-command-reopens-its-stream-in-a-parallel-slot", "msg": "%s (parallel slot): %s has %d bytes, the task wrote %d after re-opening /dev/%s by name" % (
                        tid, fname, len(got), len(want), key), "witness": W})
                elif got != want:
                    i = next((i for i, (x, y) in enumerate(zip(got, want)) if x != y), min(len(got), len(want)))
                    kind = "truncated" if len(got) < len(want) and want.startswith(got) else ("extra-bytes" if len(got) > len(want) and got.startswith(want) else "differs")
                    out["violations"].append({"key": "C10:%s-log-%s" % (key, kind), "msg": "%s (%s mode): %s has %d bytes, the task wrote %d; first difference at offset %d (got %r, wrote %r)" % (tid, case["mode"], fname, len(got), len(want), i, got[i:i + 12], want[i:i + 12]), "witness": W})
            fwd_out.append(want_out)
            fwd_err.append(want_err)
            # args.json / options.json
            t = pr.tb[tid]
            if not exp["fail"]:
                for fname, decl in (("args.json", t["args"]), ("options.json", t["options"])):
                    p = os.path.join(d, fname)
                    bump("c10_json_checks")
                    if not decl:
                        if os.path.lexists(p):
                            out["violations"].append({"key": "C10:json-record-present-for-empty", "msg": "%s: %s exists although nothing was declared" % (tid, fname), "witness": W})
                        continue
                    if os.path.isdir(p) or os.path.islink(p):
                        out["violations"].append({"key": "C10:json-record-unreadable", "msg": "%s: %s is a %s, not a record of %r" % (tid, fname, "link" if os.path.islink(p) else "directory", decl), "witness": W})
                        continue
                    if not os.path.exists(p):
                        out["violations"].append({"key": "C10:json-record-missing", "msg": "%s: %s missing (declared %r)" % (tid, fname, decl), "witness": W})
                        continue
                    try:
                        got = json.load(open(p, encoding="utf-8"))
                    except ValueError as ex:
                        out["violations"].append({"key": "C10:json-record-unreadable", "msg": "%s: %s does not decode: %s" % (tid, fname, ex), "witness": W})
                        continue
                    if isinstance(decl, list):
                        ok = isinstance(got, list) and len(got) == len(decl) and all(same_value(a, b) for a, b in zip(got, decl))
                    else:
                        ok = isinstance(got, dict) and set(got) == set(decl) and all(same_value(got[k], decl[k]) for k in decl)
                    if not ok:
                        out["violations"].append({"key": "C10:json-record-differs", "msg": "%s: %s decodes to %r, declared %r" % (tid, fname, got, decl), "witness": W})
        if case["mode"] != "par" and not anyfail and r.code == 0 and not out["violations"] and not case.get("broken_stdio"):
            bump("c10_forward_checks")
            wo, we = b"".join(fwd_out), b"".join(fwd_err)
            so = ESC.sub(b"", r["stdout_bytes"])
            if so.replace(b"\n", b"") != wo.replace(b"\n", b"") or not (0 <= so.count(b"\n") - wo.count(b"\n") <= 6 * len(started) + 8):
                out["violations"].append({"key": "C10:forwarded-stdout-differs", "msg": "sequential mode: Conductor's own stdout (status lines removed) carries %d bytes, tasks wrote %d to stdout" % (len(so), len(wo)), "witness": W})
            if r["stderr_bytes"] != we:
                out["violations"].append({"key": "C10:forwarded-stderr-differs", "msg": "sequential mode: Conductor's stderr has %d bytes, tasks wrote %d to stderr (first bytes %r vs %r)" % (len(r["stderr_bytes"]), len(we), r["stderr_bytes"][:40], we[:40]), "witness": W})
        if case["mode"] == "par" and r.code == 0:
            bump("c10_parallel_mode_runs")
        if not started:
            out["inconclusive"].append({"why": "no task started", "detail": cli.brief(r)})
        out["sets"]["modes"] = [case["mode"]]
        out["violations"] = out["violations"][:2]
        out["sample"] = slim
    return out


def main(tier, n=None):
    rep = common.Report(PROP, tier, "exploration", RULE)
    rep.assumptions = ["teed-mode payloads avoid the ESC byte so that Conductor's coloured status lines can be removed unambiguously; forwarded stdout is compared modulo newline placement (blank separator lines are cosmetic), log files byte-exactly",
                       "bytes written by a lingering grandchild that inherited the pipe count as written by the command"]
    rng = common.rng_for("c10", common.base_seed())
    total = n or (500 if tier == "quick" else 5000)
    cases = [{"seed": rng.randrange(1 << 40), "tier": tier} for _ in range(total)]
    cli.warm()
    res = common.parallel_map(eval_case, cases, timeout=900)
    rep.merge_pool(res, cases)
    return rep.finish(required_reach=["c10_log_files_compared", "c10_bytes_compared", "c10_json_checks", "c10_forward_checks", "c10_parallel_mode_runs", "c10_runs_with_an_entry_left_under_a_records_name"])


def replay(path):
    with open(path) as f:
        v = json.load(f)
    if not v["witness"].get("case"):
        print("replay: payload too large to store; re-run the check with the same VERIF_SEED")
        return 2
    out = eval_case(v["witness"]["case"])
    for x in out["violations"]:
        print(x["msg"])
        print("VIOLATION property=%s replay=%s" % (PROP, path))
    return 1 if out["violations"] else 0
