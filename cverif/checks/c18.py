"""C18 - combine() exposes each dependency's output under its name (E1/E4 histories with real
processes; oracle: resolved link targets vs the directory each dependency's own probe saw as
COND_OUT in this invocation, else what `cond where` printed before it)."""
import json
import os

from .. import common, cli, gen, realrun

PROP = "C18"
RULE = ("combine tasks over 1-5 dependencies of every kind (run_command / run_experiment / combine / group, some producing no files), packages nested 0-3 deep on either side, a sibling consumer "
        "with the same deps; histories run -> --again -> partial re-runs of sub-targets -> run; conflict injection (a regular file / directory / foreign symlink where an entry goes); "
        "non-trivial = >=2 entries expected; distinct = hash(case)")


def gen_case(rng):
    pk = rng.choice([[""], ["", "a"], ["a/b/c", "a", ""], ["x", "y/z", "y"]])
    ndep = rng.randint(1, 5)
    all_exp = rng.random() < 0.3  # every dependency cacheable: only a changed version distinguishes runs
    tasks, scripts = [], {}
    for i in range(ndep):
        kind = rng.choice(["run_command", "run_experiment", "run_experiment", "group", "combine"]) if not all_exp else "run_experiment"
        pkg = rng.choice(pk)
        name = "d%d" % i
        if i and rng.random() < 0.25:
            # names that differ only by a suffix a careless implementation might use for temporaries
            name = tasks[-1]["name"] + rng.choice(["-new", "-old", "_tmp", "-1"])
            if i >= 2 and rng.random() < 0.5:
                # ... listed BEFORE the name it extends
                pass
        sub = []
        if kind in ("group", "combine") and tasks and rng.random() < 0.8:
            sub = [t["id"] for t in rng.sample(tasks, min(len(tasks), rng.randint(1, 2))) if t["kind"] != "group" or kind == "group"]
            if kind == "combine" and len({gen.split_tid(x)[1] for x in sub}) != len(sub):
                sub = sub[:1]
        t = gen.mk_task(pkg, name, kind, sub, par=rng.random() < 0.5)
        tasks.append(t)
        if kind in gen.PROC_KINDS:
            empty = kind == "run_command" and rng.random() < 0.2
            scripts[t["id"]] = {"steps": [] if empty else [["file", rng.choice(["r.txt", "sub/r.bin"]), realrun.b64(os.urandom(8))]]}
            if kind == "run_command" and not empty and rng.random() < 0.12:
                # the command keeps its results elsewhere and leaves a link where its output directory was
                # (`mv $COND_OUT /big/disk/x && ln -s /big/disk/x $COND_OUT`): the directory it produced is what the link names
                scripts[t["id"]]["steps"].append(["rmout", "replace-with-link"])
    cpkg = rng.choice(pk)
    deps = [t["id"] for t in tasks]
    rng.shuffle(deps)
    if rng.random() < 0.5:
        # longer names first ("fit-new" before "fit")
        deps.sort(key=lambda x: -len(x))
    comb = gen.mk_task(cpkg, "comb", "combine", deps)
    sib = gen.mk_task(rng.choice(pk), "sib", "run_command", deps)
    scripts[sib["id"]] = {"steps": []}
    top = gen.mk_task("", "top", "group", [comb["id"], sib["id"]])
    tasks += [comb, sib, top]
    ids = [t["id"] for t in tasks]
    hist = [{"target": "//:top", "again": False, "jobs": rng.choice([None, 3])}]
    for _ in range(rng.choice([0, 1, 2, 3])):
        r = rng.random()
        if r < 0.4:
            hist.append({"target": "//:top", "again": True, "jobs": rng.choice([None, 2])})
        elif r < 0.7:
            hist.append({"target": rng.choice(ids), "again": True, "jobs": None})
        else:
            hist.append({"target": comb["id"], "again": rng.random() < 0.5, "jobs": None})
    if all_exp:
        # re-run ONE dependency alone, then ask for the combine again without --again
        hist = [{"target": "//:top", "again": False, "jobs": None}, {"target": rng.choice(deps), "again": True, "jobs": None}, {"target": rng.choice([comb["id"], "//:top"]), "again": False, "jobs": None}]
    if hist[-1]["target"] not in ("//:top", comb["id"]):
        hist.append({"target": comb["id"], "again": False, "jobs": None})
    conflict = None
    if rng.random() < 0.3:
        conflict = {"dep": rng.choice(deps), "kind": rng.choice(["file", "dir", "foreign-symlink"]), "before": rng.randrange(len(hist))}
    if len(hist) >= 2 and rng.random() < 0.15:
        # before a later invocation: `cond clean` was killed right after it had removed the index (it removes the index
        # first), then `cond gc` collected the - now unrecorded - version directories; combine outputs that survived still
        # hold Conductor's links to versions that no longer exist
        hist[rng.randrange(1, len(hist))]["after_killed_clean_and_gc"] = True
    return {"tasks": gen.dump(tasks), "scripts": scripts, "history": hist, "conflict": conflict, "comb": comb["id"], "sib": sib["id"], "pkgdir_symlink": rng.random() < 0.25, "pkg_index": rng.randrange(16), "condout_symlink": rng.random() < 0.2, "odd_root": rng.random() < 0.25}


def nonempty_dir(p):
    try:
        return os.path.isdir(p) and any(True for _ in os.scandir(p))
    except OSError:
        return False


def eval_case(case):
    cli.warm()
    out = {"sig": common.short_hash([[(t["kind"], t["pkg"], t["deps"]) for t in case["tasks"]], case["history"], case["conflict"]]),
           "nontrivial": False, "reach": {}, "violations": [], "inconclusive": [], "sets": {}}
    R = out["reach"]

    def bump(k, n=1):
        R[k] = R.get(k, 0) + n

    with common.Scratch("cv18") as sc:
        tasks = [gen.Task(t) for t in case["tasks"]]
        pr = realrun.Project(sc.root, tasks, case["scripts"], hostile={"odd_root": case.get("odd_root"), "condout_symlink": case.get("condout_symlink"), "pkgdir_symlink": case.get("pkgdir_symlink"), "pkg_index": case.get("pkg_index", 0)})
        tb = pr.tb
        comb = tb[case["comb"]]
        cout = pr.out_dir(comb["id"])
        conflict = case["conflict"]
        conflict_active = None
        for hi, inv in enumerate(case["history"]):
            if conflict and conflict["before"] == hi:
                os.makedirs(cout, exist_ok=True)
                ent = os.path.join(cout, gen.split_tid(conflict["dep"])[1])
                if os.path.islink(ent):
                    os.unlink(ent)
                if not os.path.lexists(ent):
                    if conflict["kind"] == "file":
                        open(ent, "w").write("precious")
                    elif conflict["kind"] == "dir":
                        os.makedirs(os.path.join(ent, "keep"))
                        open(os.path.join(ent, "keep", "f"), "w").write("precious")
                    else:
                        tgt = os.path.join(sc.root, "elsewhere")
                        os.makedirs(tgt, exist_ok=True)
                        open(os.path.join(tgt, "mine"), "w").write("precious")
                        os.symlink(tgt, ent)
                    conflict_active = {"entry": ent, "kind": conflict["kind"], "hash": realrun.tree_hash(ent), "dep": conflict["dep"]}
            if inv.get("after_killed_clean_and_gc"):
                idx = os.path.join(pr.root, "cond-out", "version_index.sqlite")
                if os.path.exists(idx):
                    os.unlink(idx)
                    pr.cond(["gc"], timeout=60)
                    R["c18_runs_after_a_killed_clean_and_gc"] = R.get("c18_runs_after_a_killed_clean_and_gc", 0) + 1
            exps = [t["id"] for t in tasks if t["kind"] == "run_experiment"]
            where_before = {x: pr.where(x) for x in exps}
            argv = ["run", inv["target"]] + (["-j", str(inv["jobs"])] if inv["jobs"] else []) + (["--again"] if inv["again"] else [])
            pr.events(new_only=True)
            r = pr.cond(argv, run_id=hi, timeout=120)
            evs = pr.events(new_only=True)
            W = {"engine": "E1", "case": case, "invocation": hi, "argv": argv, "result": cli.brief(r)}
            if r["timed_out"]:
                out["inconclusive"].append({"why": "cond run timed out (watchdog)", "detail": cli.brief(r)})
                break
            starts = {e["task"]: e for e in evs if e["kind"] == "start"}
            # combine() is not a cacheable task type: whenever the invocation's target is the combine task
            # (or the group above it) the combine step is due, whether or not Conductor chose to run it
            comb_due = inv["target"] in ("//:top", comb["id"])
            if not comb_due:
                continue

            def expected(d):
                k = tb[d]["kind"]
                if k == "group":
                    return None
                if k in ("run_command", "combine"):
                    return pr.out_dir(d)
                if d in starts:
                    return starts[d]["env"]["COND_OUT"]
                return where_before.get(d)

            if conflict_active and conflict_active["kind"] in ("file", "dir", "foreign-symlink") and nonempty_dir(expected(conflict_active["dep"]) or ""):
                bump("c18_conflict_checks")
                if realrun.tree_hash(conflict_active["entry"]) != conflict_active["hash"]:
                    if conflict_active["kind"] == "foreign-symlink":
                        out["violations"].append({"key": "C18:link-that-conductor-did-not-make-replaced", "msg": "a symbolic link the user made at %s (to a directory outside cond-out) was silently replaced by combine (exit %s)" % (conflict_active["entry"], r.code), "witness": W})
                        break
                    out["violations"].append({"key": "C18:non-link-entry-overwritten", "msg": "pre-existing %s at %s was modified/replaced by combine" % (conflict_active["kind"], conflict_active["entry"]), "witness": W})
                    break
                if r.code == 0 or "already exists and cannot be overwritten" not in (r.out + r.err):
                    out["violations"].append({"key": "C18:conflict-not-reported", "msg": "combine found a %s where its entry goes but the run did not report the conflict error (exit %s)" % (conflict_active["kind"], r.code), "witness": W})
                    break
                if "Traceback" in r.err:
                    out["violations"].append({"key": "C18:conflict-traceback", "msg": "conflict produced a traceback: %s" % r.err[-300:], "witness": W})
                break
            if r.code != 0:
                if not conflict_active and "cannot be overwritten by the combine() task" in (r.out + r.err):
                    # nothing was put in combine's way: it refused an entry that Conductor itself had made earlier
                    out["violations"].append({"key": "C18:combine-refuses-its-own-entry", "msg": "cond %s failed with a combine conflict although nothing but Conductor touched the combine output: %s" % (" ".join(argv), r.err[-300:]), "witness": W})
                    break
                out["inconclusive"].append({"why": "cond run failed where every task succeeds", "detail": cli.brief(r)})
                break
            nexp = 0
            for d in comb["deps"]:
                exp = expected(d)
                if exp is None or not nonempty_dir(exp):
                    continue
                if conflict_active and conflict_active["dep"] == d:
                    continue  # judged above
                nexp += 1
                ent = os.path.join(cout, gen.split_tid(d)[1])
                bump("c18_entry_checks")
                if not os.path.lexists(ent):
                    out["violations"].append({"key": "C18:entry-missing", "msg": "%s/%s missing although %s has a non-empty output %s" % (cout, os.path.basename(ent), d, exp), "witness": W})
                elif not os.path.islink(ent):
                    out["violations"].append({"key": "C18:entry-not-a-link", "msg": "%s is not a symlink" % ent, "witness": W})
                elif os.path.realpath(ent) != os.path.realpath(exp):
                    key = "C18:entry-points-to-stale-version" if os.path.realpath(ent).split(".task")[0] == os.path.realpath(exp).split(".task")[0] else "C18:entry-points-elsewhere"
                    out["violations"].append({"key": key, "msg": "%s -> %s (link text %r), expected %s (what %s %s)" % (ent, os.path.realpath(ent), os.readlink(ent), os.path.realpath(exp), d, "wrote in this invocation" if d in starts else "had selected"), "witness": W})
            if nexp >= 2:
                out["nontrivial"] = True
            if case["sib"] in starts:
                sdeps = [p for p in starts[case["sib"]]["env"].get("COND_DEPS", "").split(":") if p]
                want = [expected(d) for d in tb[case["sib"]]["deps"] if expected(d)]
                bump("c18_sibling_checks")
                for d, p in zip([d for d in tb[case["sib"]]["deps"] if expected(d)], sdeps):
                    ent = os.path.join(cout, gen.split_tid(d)[1])
                    if os.path.islink(ent) and nonempty_dir(p) and os.path.realpath(ent) != os.path.realpath(p):
                        out["violations"].append({"key": "C18:entry-differs-from-COND_DEPS-of-sibling", "msg": "combine links %s -> %s but the sibling consumer received %s for %s" % (ent, os.path.realpath(ent), p, d), "witness": W})
            if out["violations"]:
                break
        out["violations"] = out["violations"][:2]
        out["sample"] = {"cond": [gen.task_src(t) for t in tasks if t["kind"] == "combine"][:2], "history": case["history"], "conflict": case["conflict"],
                         "links": {n: os.readlink(os.path.join(cout, n)) for n in (os.listdir(cout) if os.path.isdir(cout) else []) if os.path.islink(os.path.join(cout, n))}}
    return out


def main(tier, n=None):
    rep = common.Report(PROP, tier, "exploration", RULE)
    rep.assumptions = ["entries for dependencies whose output directory is empty or absent are don't-care", "a link Conductor made = a symbolic link whose target is a task output directory (<name>.task[.<version>]) below cond-out; any other pre-existing entry, including a symbolic link to somewhere else, must be reported and left alone"]
    rng = common.rng_for("c18", common.base_seed())
    total = n or (400 if tier == "quick" else 4000)
    cases = [gen_case(rng) for _ in range(total)]
    cli.warm()
    res = common.parallel_map(eval_case, cases, timeout=600)
    rep.merge_pool(res, cases)
    return rep.finish(required_reach=["c18_entry_checks", "c18_sibling_checks", "c18_conflict_checks"])


def replay(path):
    with open(path) as f:
        v = json.load(f)
    out = eval_case(v["witness"]["case"])
    for x in out["violations"]:
        print(x["msg"])
        print("VIOLATION property=%s replay=%s" % (PROP, path))
    return 1 if out["violations"] else 0
