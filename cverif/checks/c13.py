"""C13 - gc removes exactly the unrecorded experiment outputs (E4: cond-out trees produced by real
histories plus hostile manual additions; oracle: full-tree snapshots before/after vs a model
written from the statement)."""
import json
import os
import re
import shutil
import sqlite3

from .. import common, cli, gen, realrun, statecheck

PROP = "C13"
RULE = ("cond-out trees from real run histories (failed / repeated runs, nested packages) plus additions: look-alike names inside run_command / combine / experiment outputs, files named like task "
        "directories, directories with a recorded timestamp under another package, empty packages, symlinks to directories inside and outside cond-out, look-alikes in the project root; "
        "modes gc / gc -n / gc -v; non-trivial = model deletes >=1 and keeps >=1 look-alike; distinct = hash(case)")

NAME = r"[a-zA-Z0-9_-]+"
EXP_RE = re.compile(r"^(%s)\.task\.([1-9][0-9]*)\Z" % NAME)
TASK_RE = re.compile(r"^(%s)\.task\Z" % NAME)
SEG_RE = re.compile(r"^%s\Z" % NAME)


def model_delete(outroot, rows):
    """Every real directory <name>.task.<ts> reachable from cond-out through package directories
    only whose (identifier-from-path, ts) is not recorded.  Returns (delete set, dontcare set)."""
    recorded = {(r[0], r[1]) for r in rows}
    delete, dontcare = set(), set()

    def walk(d, relparts, ok_path):
        for n in sorted(os.listdir(d)):
            full = os.path.join(d, n)
            if os.path.islink(full):
                continue  # never through symlinks
            if not os.path.isdir(full):
                continue
            m = EXP_RE.match(n)
            if m:
                ident = "//%s:%s" % ("/".join(relparts), m.group(1))
                if not ok_path:
                    dontcare.add(full)
                elif (ident, int(m.group(2))) not in recorded:
                    delete.add(full)
                continue
            if TASK_RE.match(n):
                continue  # run_command / combine output: never descended into
            walk(full, relparts + [n], ok_path and bool(SEG_RE.match(n)))

    walk(outroot, [], True)
    return delete, dontcare


def add_hostile(rng, pr, sc_root):
    out = os.path.join(pr.root, "cond-out")
    added = []

    def mk(rel, file=False):
        p = os.path.join(out, rel)
        if file:
            os.makedirs(os.path.dirname(p), exist_ok=True)
            open(p, "w").write("x")
        else:
            os.makedirs(p, exist_ok=True)
            open(os.path.join(p, "payload"), "w").write(rel)
        added.append(rel)

    rows = pr.rows()
    opts = [
        lambda: mk("ghost.task.123"),
        lambda: mk("a/b/ghost.task.55"),
        lambda: mk("newpkg/sub/ghost.task.9"),
        lambda: mk("a/c1.task/x.task.5"),
        lambda: mk("k.task/inner.task.7"),
        lambda: mk("a/c1.task/deep/er/y.task.11"),
        lambda: mk("a/f.task.9", file=True),
        lambda: mk("x.task.007"),
        lambda: mk("x.task.12ab"),
        lambda: mk("empty-pkg"),
        lambda: mk("a/plain-dir/z.task.4"),
        lambda: mk("notes.txt", file=True),
        lambda: mk("my.dir/q.task.3"),
        # package directories whose names only LOOK like task directories when '.' is read as 'any character'
        lambda: (mk("bench_task_2/keep.task"), mk("bench_task_2/ghost.task.9")),
        lambda: mk("multitask12/deep/ghost.task.4"),
        lambda: (mk("a-task-3/keep.task"), mk("xtaskx5")),
        # run_command / combine outputs whose NAMES use every character class of the grammar
        lambda: (mk("a/my-cmd.task/x.task.5"), mk("a/my-cmd.task/sub/y.task.6")),
        lambda: mk("under_score.task/inner.task.3"),
        lambda: mk("a/b/UPPER-9_x.task/z.task.1"),
        lambda: mk("-.task/q.task.8"),
        lambda: mk("_.task/q.task.8"),
        # unrecorded experiment outputs whose names use '-' / '_' / digits / capitals
        lambda: (mk("a/my-exp.task.44"), mk("A_b-9.task.45"), mk("7.task.46")),
        # names that only match a pattern whose end anchor tolerates a trailing newline: neither an experiment output
        # nor a task output
        lambda: (mk("notes.task.2024\n"), mk("a/b/n0tes.task.7\n")),
    ]
    if rows and not isinstance(rows, str):
        r0 = rng.choice(rows)
        pkg, name = gen.split_tid(r0[0])
        # inside a recorded version
        opts.append(lambda: mk(os.path.join(pkg, "%s.task.%d" % (name, r0[1]), "inner.task.7")))
        # same name + timestamp under another package: a different identifier => unrecorded
        other = "zz" if pkg != "zz" else "yy"
        opts.append(lambda: mk(os.path.join(other, "%s.task.%d" % (name, r0[1]))))
        opts.append(lambda: mk(os.path.join(pkg, "%s.task.%d" % (name, r0[1] + 100000))))
    for f in rng.sample(opts, rng.randint(3, len(opts))):
        f()
    if rng.random() < 0.25 and cli.unprivileged_available():
        # an unrecorded experiment output that contains protected sub-directories (tools that protect their results,
        # copied-in caches, private scratch space): deleting it takes more than unlink - gc then runs WITHOUT root's
        # permission override.  The owner can always remove such a tree (chmod, then delete), so gc has to.
        # modes: read-only (no w), write-only (no r: cannot be listed), no-search (no x), nothing at all
        d = os.path.join(out, "a", "protected.task.31")
        inner_mode, outer_mode = rng.choice([(0o555, 0o555), (0o300, 0o755), (0o755, 0o300), (0o000, 0o755), (0o600, 0o555), (0o300, 0o300), (0o500, 0o000), (0o555, 0o755)])
        os.makedirs(os.path.join(d, "ro", "sub", "deeper"), exist_ok=True)
        open(os.path.join(d, "ro", "sub", "f"), "w").write("x")
        open(os.path.join(d, "ro", "sub", "deeper", "g"), "w").write("x")
        open(os.path.join(d, "top"), "w").write("y")
        os.chmod(os.path.join(d, "ro", "sub", "deeper"), inner_mode)
        os.chmod(os.path.join(d, "ro", "sub"), inner_mode)
        os.chmod(os.path.join(d, "ro"), outer_mode)
        added.append("a/protected.task.31 (sub-directories with modes %o/%o)" % (outer_mode, inner_mode))
        pr.unprivileged_gc = True
    if rng.random() < 0.15 and cli.unprivileged_available():
        # a manual addition that its owner has closed (private notes, a directory created by a container as another
        # user): gc cannot look inside - it holds nothing of Conductor's - and still has to do its job everywhere else
        d = os.path.join(out, rng.choice(["private-notes", "a/private-notes", "zz-closed"]))
        os.makedirs(d, exist_ok=True)
        open(os.path.join(d, "todo.txt"), "w").write("x")
        os.makedirs(os.path.join(d, "plain"), exist_ok=True)
        os.chmod(d, rng.choice([0o000, 0o444, 0o111]))
        added.append(os.path.relpath(d, out) + " (closed by its owner)")
        pr.unprivileged_gc = True
    # symlinks
    outside = os.path.join(sc_root, "outside-%d" % rng.randrange(10 ** 6))
    if rng.random() < 0.7:
        os.makedirs(os.path.join(outside, "y.task.5"))
        open(os.path.join(outside, "y.task.5", "precious"), "w").write("outside cond-out")
        os.makedirs(os.path.join(outside, "pkg", "w.task.6"))
        os.symlink(outside, os.path.join(out, "link-out"))
        added.append("link-out ->outside")
    if rng.random() < 0.5 and os.path.isdir(os.path.join(out, "a")):
        os.symlink("a", os.path.join(out, "link-in"))
        added.append("link-in ->a")
    if rng.random() < 0.4:
        # a symbolic link that is NAMED like an experiment output
        tgt = os.path.join(sc_root, "linked-exp-%d" % rng.randrange(10 ** 6))
        os.makedirs(tgt, exist_ok=True)
        open(os.path.join(tgt, "precious"), "w").write("x")
        os.symlink(tgt, os.path.join(out, "lnk.task.5"))
        added.append("lnk.task.5 ->outside")
    # look-alikes outside cond-out
    os.makedirs(os.path.join(pr.root, "z.task.9"), exist_ok=True)
    open(os.path.join(pr.root, "z.task.9", "keep"), "w").write("project root")
    os.makedirs(os.path.join(pr.root, "a", "src.task.3"), exist_ok=True)
    return added, outside


def eval_case(case):
    cli.warm()
    rng = common.rng_for("c13case", case["seed"])
    out = {"sig": common.short_hash(case), "nontrivial": False, "reach": {}, "violations": [], "inconclusive": [], "sets": {}}
    R = out["reach"]

    def bump(k, n=1):
        R[k] = R.get(k, 0) + n

    with common.Scratch("cv13") as sc:
        pr = statecheck.std_project(sc.root)
        if case.get("condout_symlink"):
            # cond-out lives on other storage and is reached through a symbolic link
            real_out = os.path.join(sc.root, "storage", "deeper", "cond-out-real")
            os.makedirs(real_out)
            os.symlink(real_out, os.path.join(pr.root, "cond-out"))
        hist = statecheck.run_history(pr, rng, case["nruns"])
        if case.get("foreign_collision"):
            T = 2_000_000_000
            pr.cond(["run", "//a:e2", "--again"], timeout=60, clock=[T])           # own: e1 @ T, e2 @ T+1
            fr = statecheck.std_project(sc.sub("foreign"), name="f")
            fr.cond(["run", "//c-d:e4"], timeout=60, clock=[T + 1])                  # foreign: e1 @ T+1 (= own e2's), e4 @ T+2
            fa = os.path.join(sc.root, "foreign.tar.gz")
            fr.cond(["archive", "-o", fa], timeout=60)
            rr = pr.cond(["restore", fa], timeout=60)
            hist.append({"foreign_restore_exit": rr.code})
        added, outside = add_hostile(rng, pr, sc.root)
        outroot = os.path.realpath(os.path.join(pr.root, "cond-out"))

        def snap_project():
            sn = statecheck.full_snapshot(pr.root)
            if os.path.islink(os.path.join(pr.root, "cond-out")):
                for k0, v0 in statecheck.full_snapshot(outroot).items():
                    sn["cond-out/" + k0] = v0
            return sn

        last_dry = None
        for mode in case["modes"]:
            rows = pr.rows()
            if isinstance(rows, str):
                out["inconclusive"].append({"why": "index unreadable", "detail": rows})
                break
            delete, dontcare = model_delete(outroot, rows)
            before = snap_project()
            before_out = statecheck.full_snapshot(outside) if os.path.isdir(outside) else {}
            argv = ["gc"] + {"gc": [], "dry": ["-n"], "verbose": ["-v"], "dry-long": ["--dry-run"], "dry-verbose": ["-n", "-v"], "verbose-long": ["--verbose"]}[mode]
            if getattr(pr, "unprivileged_gc", False):
                r = pr.cond(argv, timeout=120, mode="exec", unprivileged=True)
                bump("c13_gc_runs_without_permission_override")
            else:
                r = pr.cond(argv, timeout=120)
            after = snap_project()
            after_out = statecheck.full_snapshot(outside) if os.path.isdir(outside) else {}
            W = {"engine": "E4", "case": case, "history": hist, "added": added, "mode": mode, "rows": rows, "model_delete": sorted(os.path.relpath(d, pr.root) for d in delete), "result": cli.brief(r, 1500)}
            bump("c13_gc_runs")
            bump("c13_paths_compared", len(before))
            if r.code != 0 or "Traceback" in r.err:
                out["violations"].append({"key": "C13:gc-failed", "msg": "cond %s exit %s: %s" % (" ".join(argv), r.code, r.err[-400:]), "witness": W})
                break
            if before_out != after_out:
                ch = sorted(set(before_out.items()) ^ set(after_out.items()))[:4]
                out["violations"].append({"key": "C13:deleted-outside-cond-out-through-symlink", "msg": "gc changed a directory outside cond-out reached through a symlink: %s" % ch, "witness": W})
                break
            relp = lambda d: os.path.join("cond-out", os.path.relpath(d, outroot))
            dc_rel = {relp(d) for d in dontcare}
            del_rel = {relp(d) for d in delete}

            def under(p, roots):
                return any(p == r0 or p.startswith(r0 + os.sep) for r0 in roots)

            if mode in ("dry", "dry-long", "dry-verbose"):
                if before != after:
                    ch = sorted(k for k in set(before) | set(after) if before.get(k) != after.get(k))[:5]
                    out["violations"].append({"key": "C13:dry-run-changed-something", "msg": "gc --dry-run changed %s" % ch, "witness": W})
                    break
                listed = set()
                for line in r.out.splitlines():
                    if line.startswith("Would delete "):
                        listed.add(os.path.normpath(line[len("Would delete "):]))
                last_dry = set(listed)
                listed = {p for p in listed if not under(p, dc_rel)}
                bump("c13_dry_run_checks")
                if listed != del_rel:
                    out["violations"].append({"key": "C13:dry-run-lists-different-set", "msg": "dry-run lists %s, a real gc must delete %s" % (sorted(listed), sorted(del_rel)), "witness": W})
                    break
            else:
                gone = {k for k in before if k not in after}
                if last_dry is not None:
                    # whatever the model says: a dry run must have announced exactly what the real gc then removed
                    top_gone = {k for k in gone if not any(k != g and k.startswith(g + os.sep) for g in gone)}
                    bump("c13_dry_vs_real_checks")
                    if top_gone != last_dry:
                        out["violations"].append({"key": "C13:dry-run-lists-different-set", "msg": "gc --dry-run announced %s, the gc that followed removed %s" % (sorted(last_dry), sorted(top_gone)), "witness": W})
                        break
                last_dry = None
                wrongly_gone = sorted(k for k in gone if not under(k, del_rel) and not under(k, dc_rel))
                still = sorted(k for k in del_rel if k in after)
                changed = sorted(k for k in after if k in before and before[k] != after[k] and not under(k, dc_rel) and os.path.basename(k) not in ("version_index.sqlite",))
                new = sorted(k for k in after if k not in before)
                bump("c13_delete_set_checks")
                if del_rel and (set(before) - gone):
                    out["nontrivial"] = True
                if wrongly_gone:
                    kept_kind = "recorded-version" if any(EXP_RE.match(os.path.basename(k)) for k in wrongly_gone[:1]) and not any(under(k, [x]) for k in wrongly_gone[:1] for x in del_rel) else "other"
                    first = wrongly_gone[0]
                    if ".task/" in first + "/" and not EXP_RE.match(first.split(os.sep)[-1] if os.sep not in first else ""):
                        pass
                    key = "C13:deleted-something-it-must-keep"
                    if any(first == os.path.relpath(pr.out_dir(r0[0], r0[1]), pr.root) or first.startswith(os.path.relpath(pr.out_dir(r0[0], r0[1]), pr.root) + os.sep) for r0 in rows):
                        key = "C13:deleted-recorded-version-content"
                    elif ".task" + os.sep in first:
                        key = "C13:deleted-inside-task-output"
                    elif not first.startswith("cond-out"):
                        key = "C13:deleted-outside-cond-out"
                    out["violations"].append({"key": key, "msg": "gc removed %s which the model keeps (model deletes %s)" % (wrongly_gone[:5], sorted(del_rel)), "witness": W})
                    break
                if still:
                    out["violations"].append({"key": "C13:unrecorded-experiment-output-kept", "msg": "gc kept %s: unrecorded experiment output directories (recorded rows: %s)" % (still[:5], [(r0[0], r0[1]) for r0 in rows][:8]), "witness": W})
                    break
                if changed or new:
                    out["violations"].append({"key": "C13:gc-modified-files", "msg": "gc changed %s / created %s" % (changed[:5], new[:5]), "witness": W})
                    break
                if mode in ("verbose", "verbose-long"):
                    listed = {os.path.normpath(l[len("Deleting "):]) for l in r.out.splitlines() if l.startswith("Deleting ")}
                    listed = {p for p in listed if not under(p, dc_rel)}
                    if listed != del_rel:
                        out["violations"].append({"key": "C13:verbose-lists-different-set", "msg": "gc -v printed %s, deleted set should be %s" % (sorted(listed), sorted(del_rel)), "witness": W})
                        break
        out["sample"] = {"case": case, "history": hist[:4], "added": added[:10]}
    return out


def main(tier, n=None):
    rep = common.Report(PROP, tier, "exploration", RULE)
    rep.assumptions = ["don't-care: look-alike directories below paths that cannot be identifiers (e.g. my.dir/), leading-zero timestamps", "gc is invoked from the project root here (other working directories: C17)"]
    rng = common.rng_for("c13", common.base_seed())
    total = n or (200 if tier == "quick" else 3000)
    cases = []
    for i in range(total):
        modes = rng.choice([["dry", "gc"], ["dry-long", "verbose"], ["gc"], ["verbose", "dry"], ["dry", "gc", "gc"], ["dry-verbose", "gc"], ["dry-verbose", "verbose-long"]])
        cases.append({"seed": rng.randrange(1 << 30), "nruns": rng.randint(1, 4), "modes": modes, "foreign_collision": rng.random() < 0.3, "condout_symlink": rng.random() < 0.2})
    cli.warm()
    res = common.parallel_map(eval_case, cases, timeout=900)
    rep.merge_pool(res, cases)
    return rep.finish(required_reach=["c13_gc_runs", "c13_delete_set_checks", "c13_dry_run_checks"])


def replay(path):
    with open(path) as f:
        v = json.load(f)
    out = eval_case(v["witness"]["case"])
    for x in out["violations"]:
        print(x["msg"])
        print("VIOLATION property=%s replay=%s" % (PROP, path))
    return 1 if out["violations"] else 0
