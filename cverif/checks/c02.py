"""C02 - each needed task runs exactly once per invocation; nothing else runs (E2 histories +
reference closure model over index rows read independently)."""
from . import _sched_common as S
from .. import sched, common

PROP = "C02"
RULE = ("generated task DAGs (structured shared-dependency families in both listing orders, all DAGs on <=4 nodes x every dep-list order, random <=8 nodes, mixed kinds) x histories of 1-3 invocations "
        "(earlier invocations of sub-targets create real cached versions; --again) x --jobs x kernel schedules; non-trivial = >=2 tasks executed; distinct = hash(graph, history flags, interleaving)")


GIT_KEYS = ("C05:at-least-rule-reran-up-to-date-task", "C05:at-least-rule-reused-too-old-version", "C05:reran-although-compatible-version-exists", "C05:reused-incompatible-version",
            "C05:again-reused-cache", "C05:at-least-annotated-tag-reruns-exact-match")


def git_flag_case(case):
    """C02 under git and {--again, --at-least, --this-commit}: the observations of the C05 workload
    (which experiments a real `cond run` starts vs the reference plan) decide 'executes exactly the
    needed tasks' as well; only the executed-set clauses are taken over."""
    from . import c05
    out = c05.eval_case(case)
    keep = []
    for v in out["violations"]:
        if v["key"] in GIT_KEYS:
            keep.append({"key": "C02:needed-set-differs-under-git-flags", "msg": "[git project] " + v["msg"], "witness": v["witness"]})
    out["violations"] = keep
    out["reach"] = {"c02_git_run_checks": out["reach"].get("c05_run_checks", 0), "c02_git_at_least_checks": out["reach"].get("c05_at_least_checks", 0)}
    out["sig"] = "git-" + str(out.get("sig"))
    return out


def main(tier, n=None):
    plan = [("cache", 1100, 50000, None, 8), ("deps", 300, 10000, None, 8), ("wide", 100, 5000, None, 8)]
    def gitcases(tier_, n_):
        from . import c05
        rng = common.rng_for("c02git", common.base_seed())
        k = 160 if tier_ == "quick" else 2500
        if n_:
            k = max(4, n_ // 20)
        cs = [dict(c05.gen_case(rng), git_mode="git") for _ in range(k)]
        for i, c in enumerate(cs):
            if i % 2 == 0:
                c.update(shape="unequal-merge", side_len=rng.randint(1, 4), main_len=rng.randint(1, 3), merge_into_side=rng.random() < 0.5)
        return cs

    rep, code = S.run(PROP, tier, "exploration", RULE, plan, ["c02_spawn_checks", "c02_progress_checks", "c02_row_checks", "e1_runs", "c02_git_run_checks", "c02_invalid_definition_runs"], n, e1=("cache", 60, 1500, 7),
                      post=gitcases, post_fn=git_flag_case)
    return code


def replay(path):
    import json
    w = json.load(open(path))["witness"]
    if w.get("engine") == "E4":
        out = git_flag_case(w["case"])
        for x in out["violations"]:
            print(x["msg"])
            print("VIOLATION property=%s replay=%s" % (PROP, path))
        return 1 if out["violations"] else 0
    return S.replay(PROP, path)
