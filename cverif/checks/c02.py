"""C02 - each needed task runs exactly once per invocation; nothing else runs (E2 histories +
reference closure model over index rows read independently)."""
from . import _sched_common as S
from .. import sched

PROP = "C02"
RULE = ("generated task DAGs (structured shared-dependency families in both listing orders, all DAGs on <=4 nodes x every dep-list order, random <=8 nodes, mixed kinds) x histories of 1-3 invocations "
        "(earlier invocations of sub-targets create real cached versions; --again) x --jobs x kernel schedules; non-trivial = >=2 tasks executed; distinct = hash(graph, history flags, interleaving)")


def main(tier, n=None):
    plan = [("cache", 1100, 50000, None, 8), ("deps", 300, 10000, None, 8), ("wide", 100, 5000, None, 8)]
    rep, code = S.run(PROP, tier, "exploration", RULE, plan, ["c02_spawn_checks", "c02_progress_checks", "c02_row_checks", "e1_runs"], n, e1=("cache", 60, 1500, 7))
    return code


def replay(path):
    return S.replay(PROP, path)
