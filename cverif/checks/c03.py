"""C03 - failures skip dependents, spare independents, decide the exit status (fault model over E2 runs)."""
from . import _sched_common as S
from .. import sched

PROP = "C03"
RULE = ("task DAGs x injected failing subsets (exit 1/2/255/259, death by SIGKILL/SIGSEGV/SIGTERM, launch failure through CPython's real exec-error pipe protocol: chdir ENOENT and execve E2BIG) "
        "x --jobs x {default, --stop-early} x kernel completion orders; non-trivial = >=2 tasks executed; distinct = hash(graph, fault set, flags, interleaving)")


def main(tier, n=None):
    plan = [("faults", 1400, 60000, None, 8), ("faults", 200, 8000, list(sched.schedsim.LINE_STRATEGIES), 7)]
    rep, code = S.run(PROP, tier, "fault_enumeration", RULE, plan, ["c03_runs_with_faults", "c03_report_checks", "c03_stop_early_checks", "e1_runs"], n, e1=("faults", 60, 1500, 7))
    return code


def replay(path):
    return S.replay(PROP, path)
