"""C09 - runs always terminate with every planned task accounted for.
Liveness restated as bounded progress: under the interposed kernel, whenever no task process is
running and no SIGCHLD is pending, `cond run` must not be blocked (deadlock detection, no
waiting); plus exactly one reported outcome per needed task, consistent with the kernel's wait
status of that task's process."""
from . import _sched_common as S
from .. import sched

PROP = "C09"
RULE = ("task DAGs (structured, all small DAGs, random, wide fans) x --jobs x every kernel scheduling strategy: exits only when blocked (fifo/lifo/random/batches: one SIGCHLD for many exits), "
        "exits at arbitrary kernel entries, exits inside fork_exec (before the process is registered), exits exactly at the entry of a waitpid(pid) issued by CPython's Popen.__del__/_cleanup, "
        "starvation of one child, exits + SIGCHLD at line boundaries of Conductor's code; non-trivial = >=2 tasks executed; distinct = hash(graph, flags, interleaving)")


def soak(tier, n, rep_hook=None):
    from .. import common, procmon
    rng = common.rng_for("c09soak", common.base_seed())
    k = 32 if tier == "quick" else 2000
    if n:
        k = max(4, n // 40)
    return [{"seed": rng.randrange(1 << 30), "ntasks": rng.choice([40, 80, 150]), "jobs": rng.choice([2, 4, 8, 8]), "par_p": rng.choice([1.0, 1.0, 0.8]), "p_dep": rng.choice([0.0, 0.1]),
             "pin": rng.sample(range(16), 4) if rng.random() < 0.7 else None} for _ in range(k)]


def main(tier, n=None):
    allst = sched.ALL_STRATS
    plan = [("live", 900, 60000, sched.CHEAP_STRATS, 8), ("wide", 500, 30000, sched.CHEAP_STRATS, 10), ("live", 250, 15000, list(sched.schedsim.LINE_STRATEGIES), 7),
            ("live", 200, 10000, ["at-waitpid-pid", "at-waitpid-pid-some", "in-fork", "in-fork-some"], 8)]
    rep, code = S.run(PROP, tier, "exploration", RULE, plan, ["c09_runs", "c09_outcome_checks", "c09_sigchld_deliveries", "c09_runs_with_batched_exits", "e1_runs", "c09_e1_sigstop_batches", "c09_soak_runs"], n, e1=("live", 60, 1500, 7), post=soak)
    return code


def replay(path):
    return S.replay(PROP, path)
