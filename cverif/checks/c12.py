"""C12 - restore is all-or-nothing and never overwrites.

Fault enumeration: single corruptions of a real archive (missing index member, missing listed
directory, truncated stream, flipped bytes, a row that is already recorded placed first / middle
/ last, pre-existing unrecorded destination directory, stale staging directory) and process
death at enumerated line events of `cond restore` (conductor.* and shutil.py) plus real SIGKILLs
at random delays.  Oracle: rows read through a fresh connection and Merkle hashes of every
pre-existing version directory, before vs after."""
import gzip
import json
import os
import shutil
import signal
import sqlite3
import subprocess
import tarfile
import time

from .. import common, cli, gen, realrun, statecheck
from .c06 import wait_orphans

PROP = "C12"
RULE = ("archives of real projects (3-8 rows, nested packages) x single faults {index member removed, listed directory removed, stream truncated at seeded offsets, bytes flipped in the gzip body, "
        "already-recorded row first/middle/last, pre-existing unrecorded destination directory, stale archive-tmp, not an archive at all} x prior project states {empty, other versions recorded} "
        "+ crash at enumerated line events of restore (conductor.*, shutil.py) + real SIGKILL; non-trivial = destination has >=1 recorded version before; distinct = (fault, parameters)")


def craft(src_archive, dst_archive, workdir, keep_rows=None, drop_index=False, drop_dir=None):
    """re-pack an archive with rows/directories removed"""
    shutil.rmtree(workdir, ignore_errors=True)
    os.makedirs(workdir)
    subprocess.run(["tar", "xzf", src_archive, "-C", workdir], check=True)
    idx = os.path.join(workdir, "version_index_archive.sqlite")
    if keep_rows is not None:
        c = sqlite3.connect(idx)
        rows = list(c.execute("SELECT task_identifier, timestamp FROM version_index"))
        for tid, ts in rows:
            if (tid, ts) not in keep_rows:
                c.execute("DELETE FROM version_index WHERE task_identifier=? AND timestamp=?", (tid, ts))
                pkg, name = gen.split_tid(tid)
                shutil.rmtree(os.path.join(workdir, pkg, "%s.task.%d" % (name, ts)), ignore_errors=True)
        c.commit()
        c.close()
    if drop_dir is not None:
        pkg, name = gen.split_tid(drop_dir[0])
        shutil.rmtree(os.path.join(workdir, pkg, "%s.task.%d" % (name, drop_dir[1])))
    if drop_index:
        os.unlink(idx)
    members = sorted(os.listdir(workdir))
    subprocess.run(["tar", "czf", dst_archive, "-C", workdir] + members, check=True)


def eval_group(arg):
    base, faults = arg
    cli.warm()
    rng = common.rng_for("c12grp", base["seed"])
    outs = {"sig": None, "nontrivial": True, "reach": {}, "violations": [], "inconclusive": [], "sets": {"case_sigs": [], "sites": []}}
    R = outs["reach"]

    def bump(k, n=1):
        R[k] = R.get(k, 0) + n

    with common.Scratch("cv12") as sc:
        # source project -> good archive
        src = statecheck.std_project(sc.sub("src"), name="s", rich_outputs=base["rich"])
        hist = statecheck.run_history(src, rng, base["nruns"])
        arows = src.rows()
        good = os.path.join(sc.root, "good.tar.gz")
        a = src.cond(["archive", "-o", good], timeout=120)
        if a.code != 0 or not arows or isinstance(arows, str):
            outs["inconclusive"].append({"why": "could not produce the base archive", "detail": cli.brief(a)})
            outs["sig"] = "setup"
            return outs
        arows = sorted(arows)
        akeys = [(r[0], r[1]) for r in arows]
        # archive-index order (= insertion order) decides where a duplicate sits among the new rows
        ix = os.path.join(sc.root, "ix")
        os.makedirs(ix)
        subprocess.run(["tar", "xzf", good, "-C", ix, "version_index_archive.sqlite"], check=True)
        c = sqlite3.connect(os.path.join(ix, "version_index_archive.sqlite"))
        order = [(t, ts) for t, ts in c.execute("SELECT task_identifier, timestamp FROM version_index")]
        c.close()
        # destination project (its own versions live at other timestamps than the archive's)
        dst = statecheck.std_project(sc.sub("dst"), name="d")
        if base["prior"]:
            statecheck.run_history(dst, rng, 2, clock_base=1_500_000_000)
        pristine = os.path.join(sc.root, "pristine")
        shutil.copytree(dst.root, pristine, symlinks=True)
        work = os.path.join(sc.root, "work")
        for fault in faults:
            for _try in range(20):
                # (a child of a killed restore - tar - may still be writing into the project for a moment)
                shutil.rmtree(dst.root, ignore_errors=True)
                if not os.path.lexists(dst.root):
                    break
                time.sleep(0.05)
            shutil.copytree(pristine, dst.root, symlinks=True)
            kind = fault["kind"]
            arch = os.path.join(sc.root, "in.tar.gz")
            if os.path.exists(arch):
                os.unlink(arch)
            expect_fail = True
            expect_rows = list(arows)
            kw = {}
            note = os.path.join(sc.root, "crash-note.json")
            if os.path.exists(note):
                os.unlink(note)
            if kind == "none":
                shutil.copy(good, arch)
                expect_fail = False
            elif kind == "no-index":
                craft(good, arch, work, drop_index=True)
            elif kind == "no-dir":
                craft(good, arch, work, drop_dir=akeys[fault["i"] % len(akeys)])
            elif kind == "truncate":
                data = open(good, "rb").read()
                open(arch, "wb").write(data[:max(1, int(len(data) * fault["frac"]))])
            elif kind == "truncate-bytes":
                data = open(good, "rb").read()
                open(arch, "wb").write(data[:max(1, len(data) - fault["cut"])])
            elif kind == "flip":
                data = bytearray(open(good, "rb").read())
                pos = 20 + int((len(data) - 40) * fault["frac"])
                for j in range(fault.get("n", 1)):
                    data[(pos + 97 * j) % len(data)] ^= 0xFF
                open(arch, "wb").write(bytes(data))
                expect_fail = None  # a flip may or may not be detected by gzip/tar; either all or nothing
            elif kind == "bad-identifier-row":
                # the archive index names a task with a string that is not an identifier; the directory it
                # would denote exists in the archive, so only the identifier check can stop the restore
                shutil.rmtree(work, ignore_errors=True)
                os.makedirs(work)
                subprocess.run(["tar", "xzf", good, "-C", work], check=True)
                bad = fault["ident"]
                c = sqlite3.connect(os.path.join(work, "version_index_archive.sqlite"))
                c.execute("INSERT INTO version_index (task_identifier, timestamp, git_commit_hash, has_uncommitted_changes) VALUES (?, 777, NULL, 0)", (bad,))
                c.commit()
                c.close()
                path_part, _, name_part = bad[2:].rpartition(":") if bad.startswith("//") else bad.rpartition(":")
                try:
                    os.makedirs(os.path.join(work, path_part, "%s.task.777" % name_part), exist_ok=True)
                    open(os.path.join(work, path_part, "%s.task.777" % name_part, "f"), "w").write("x")
                except (OSError, ValueError):
                    pass
                subprocess.run(["tar", "czf", arch, "-C", work] + sorted(os.listdir(work)), check=True)
            elif kind == "garbage":
                open(arch, "wb").write(b"this is not an archive\n" * 50)
            elif kind == "dup":
                if len(order) < 2:
                    continue
                pos = {"first": 0, "middle": len(order) // 2, "last": len(order) - 1}[fault["pos"]]
                x = order[pos]
                pre = os.path.join(sc.root, "pre.tar.gz")
                craft(good, pre, work, keep_rows={x})
                p0 = dst.cond(["restore", pre], timeout=120)
                if p0.code != 0:
                    outs["inconclusive"].append({"why": "could not pre-restore the duplicate row", "detail": cli.brief(p0)})
                    continue
                shutil.copy(good, arch)
            elif kind == "preexisting-dir":
                x = akeys[fault["i"] % len(akeys)]
                d = dst.out_dir(x[0], x[1])
                os.makedirs(d, exist_ok=True)
                open(os.path.join(d, "leftover"), "w").write("unrecorded leftover")
                shutil.copy(good, arch)
            elif kind == "stale-tmp":
                st = os.path.join(dst.root, "cond-out", realrun.staging_name())
                os.makedirs(os.path.join(st, "zz", "old.task.3"), exist_ok=True)
                open(os.path.join(st, "junk"), "w").write("stale")
                shutil.copy(good, arch)
                expect_fail = False
            elif kind == "stale-tmp-other-archive":
                # an earlier restore of a DIFFERENT archive was killed while extracting: its index and
                # directories are still in cond-out/archive-tmp
                st = os.path.join(dst.root, "cond-out", realrun.staging_name())
                os.makedirs(st, exist_ok=True)
                other = statecheck.std_project(sc.sub("other%d" % rng.randrange(10 ** 6)), name="o")
                other.cond(["run", "//c-d:e4"], timeout=60, clock=[1_400_000_000])
                oa = os.path.join(sc.root, "other.tar.gz")
                other.cond(["archive", "-o", oa], timeout=60)
                subprocess.run(["tar", "xzf", oa, "-C", st], check=False)
                shutil.copy(good, arch)
                expect_fail = False
            elif kind == "crash":
                shutil.copy(good, arch)
                kw.update(crash_at=fault["k"], crash_note=note, extra_files=[shutil.__file__])
                expect_fail = None
            elif kind == "sigkill":
                shutil.copy(good, arch)
                t_start = time.monotonic()
                done = {"x": False}

                def poll(pid, _d=done, _t=t_start, _delay=fault["delay"]):
                    if not _d["x"] and time.monotonic() - _t >= _delay:
                        _d["x"] = True
                        try:
                            os.kill(pid, signal.SIGKILL)
                        except OSError:
                            pass

                kw["poll"] = poll
                expect_fail = None
            if fault.get("stale_staging"):
                # an earlier restore of the INTACT archive was killed while extracting: cond-out/archive-tmp still holds
                # its index and directories; what is restored now is the damaged copy, and only its content counts
                st = os.path.join(dst.root, "cond-out", realrun.staging_name())
                os.makedirs(st, exist_ok=True)
                subprocess.run(["tar", "xzf", good, "-C", st], check=False)
                bump("c12_damaged_archive_after_killed_restore_of_intact_one")
            rows_before = dst.rows()
            if isinstance(rows_before, str):
                rows_before = []
            hashes_before = {(r[0], r[1]): realrun.tree_hash(dst.out_dir(r[0], r[1])) for r in rows_before}
            # version directories that exist without being recorded (a leftover copied in by hand, kept after the index
            # was lost): "no existing version directory has been modified" covers them as well
            unrecorded_before = {}
            for x in arows:
                d0 = dst.out_dir(x[0], x[1])
                if (x[0], x[1]) not in hashes_before and os.path.isdir(d0):
                    unrecorded_before[(x[0], x[1])] = realrun.tree_hash(d0)
            r = dst.cond(["restore", arch], timeout=120, **kw)
            wait_orphans(dst, timeout=2.0)
            rows_after = dst.rows()
            site = json.load(open(note)) if os.path.exists(note) else None
            W = {"engine": "E3/E4", "base": base, "fault": fault, "site": site, "archive_rows": arows, "rows_before": rows_before, "rows_after": rows_after, "result": cli.brief(r, 800)}
            bump("c12_restores")
            bump("c12_fault_" + kind)
            sig = "%s|%s" % (kind, site["site"] if site else json.dumps({k: v for k, v in fault.items() if k != "kind"}, sort_keys=True))
            outs["sets"]["case_sigs"].append(sig)
            if site:
                outs["sets"]["sites"].append(site["site"])
            if r["timed_out"]:
                outs["inconclusive"].append({"why": "restore timed out (watchdog)", "detail": cli.brief(r)})
                continue
            if isinstance(rows_after, str) and "no such table" in rows_after and not rows_before:
                rows_after = []  # killed while the (so far absent) index was being created: nothing is recorded
            if isinstance(rows_after, str):
                outs["violations"].append({"key": "C12:index-unreadable-after-restore", "msg": "index unreadable after %s: %s" % (kind, rows_after), "witness": W})
                continue
            ok_exit = (r.code == 0)
            if expect_fail is True and ok_exit:
                outs["violations"].append({"key": "C12:faulty-archive-restored-successfully", "msg": "restore of an archive with fault %s reported success" % fault, "witness": W})
                continue
            if expect_fail is False and not ok_exit:
                outs["violations"].append({"key": "C12:good-archive-rejected", "msg": "restore (%s) failed: %s" % (kind, r.err[-400:]), "witness": W})
                continue
            before_keys = sorted((x[0], x[1], x[2], x[3]) for x in rows_before)
            after_keys = sorted((x[0], x[1], x[2], x[3]) for x in rows_after)
            full = sorted(set(before_keys) | {(x[0], x[1], x[2], x[3]) for x in arows})
            if ok_exit:
                bump("c12_success_checks")
                missing = [x for x in arows if (x[0], x[1], x[2], x[3]) not in set(after_keys)]
                nodir = [x for x in arows if not os.path.isdir(dst.out_dir(x[0], x[1]))]
                if missing or nodir:
                    outs["violations"].append({"key": "C12:successful-restore-incomplete", "msg": "restore exited 0 but rows missing %s / directories missing %s" % (missing[:4], nodir[:4]), "witness": W})
                    continue
                extra = sorted(set(after_keys) - set(full))
                if extra:
                    outs["violations"].append({"key": "C12:successful-restore-recorded-versions-not-in-the-archive", "msg": "restore exited 0 and recorded %s, which are neither in the archive nor were recorded before" % extra[:4], "witness": W})
                    continue
            else:
                bump("c12_failure_checks")
                if after_keys != before_keys and not (expect_fail is None and after_keys == full and all(os.path.isdir(dst.out_dir(x[0], x[1])) for x in arows)):
                    added = sorted(set(after_keys) - set(before_keys))
                    lost = sorted(set(before_keys) - set(after_keys))
                    key = "C12:failed-restore-left-rows-behind" if added else "C12:failed-restore-lost-recorded-versions"
                    outs["violations"].append({"key": key, "msg": "restore (%s) did not complete (exit %s signal %s) but recorded versions changed: added %s lost %s" % (kind, r.code, r["signal"], added[:5], lost[:5]), "witness": W})
                    continue
            for k0, h in hashes_before.items():
                bump("c12_existing_dir_checks")
                h2 = realrun.tree_hash(dst.out_dir(k0[0], k0[1]))
                if h2 != h:
                    outs["violations"].append({"key": "C12:existing-version-directory-modified", "msg": "restore (%s) changed the directory of the already recorded version %s: %s -> %s" % (kind, k0, h, h2), "witness": W})
                    break
            if not ok_exit:
                for k0, h in unrecorded_before.items():
                    bump("c12_existing_unrecorded_dir_checks")
                    d0 = dst.out_dir(k0[0], k0[1])
                    h2 = realrun.tree_hash(d0) if os.path.isdir(d0) else "absent"
                    if h2 != h:
                        outs["violations"].append({"key": "C12:existing-unrecorded-version-directory-modified", "msg": "restore (%s) failed and changed or removed the directory %s that existed (unrecorded) before it: %s -> %s" % (kind, k0, h, h2), "witness": W})
                        break
            if rows_before:
                bump("c12_nontrivial")
            outs["sample"] = {"fault": fault, "site": site, "exit": r.code, "signal": r["signal"], "rows_before": len(rows_before), "rows_after": len(rows_after), "archive_rows": len(arows)}
    outs["sig"] = common.short_hash(outs["sets"]["case_sigs"])
    outs["reach"]["c12_cases"] = len(outs["sets"]["case_sigs"])
    outs["violations"] = outs["violations"][:3]
    return outs


def count_lines(base):
    cli.warm()
    rng = common.rng_for("c12grp", base["seed"])
    with common.Scratch("cv12n") as sc:
        src = statecheck.std_project(sc.sub("src"), name="s", rich_outputs=base["rich"])
        statecheck.run_history(src, rng, base["nruns"])
        good = os.path.join(sc.root, "good.tar.gz")
        src.cond(["archive", "-o", good], timeout=120)
        dst = statecheck.std_project(sc.sub("dst"), name="d")
        cpath = os.path.join(sc.root, "count.json")
        r = dst.cond(["restore", good], timeout=120, count=cpath, extra_files=[shutil.__file__])
        if not os.path.exists(cpath):
            return {"error": cli.brief(r)}
        return json.load(open(cpath))


def main(tier, n=None):
    rep = common.Report(PROP, tier, "fault_enumeration", RULE)
    rep.assumptions = ["one archive fault at a time, alone or on top of the staging leftovers of a killed earlier restore of the intact archive", "don't-care: unrecorded directories left behind by a failed restore (gc's job)", "a killed restore may be complete (all rows + all directories) or have no effect on the recorded versions",
                       "process death only; SQLite's atomic commit is trusted"]
    rng = common.rng_for("c12", common.base_seed())
    cli.warm()
    nbases = 8 if tier == "quick" else 64
    groups = []
    bases = []
    for b in range(nbases):
        base = {"seed": rng.randrange(1 << 30), "nruns": rng.randint(2, 4), "prior": b % 4 != 0, "rich": b % 2 == 0}
        bases.append(base)
        faults = [{"kind": "none"}, {"kind": "no-index"}, {"kind": "garbage"}, {"kind": "stale-tmp"}, {"kind": "stale-tmp-other-archive"}]
        faults += [{"kind": "no-dir", "i": rng.randrange(100)} for _ in range(2)]
        faults += [{"kind": "no-index", "stale_staging": True}, {"kind": "no-dir", "i": rng.randrange(100), "stale_staging": True}, {"kind": "garbage", "stale_staging": True}]
        faults += [{"kind": "truncate", "frac": rng.random()} for _ in range(4 if tier == "quick" else 16)]
        faults += [{"kind": "truncate", "frac": 1.0 - rng.random() * 0.12} for _ in range(6 if tier == "quick" else 24)]   # tail: last member headers, end-of-archive blocks, gzip trailer
        faults += [{"kind": "truncate-bytes", "cut": c} for c in ([1, 8, 9, 64, 512, 1024, 1536] if tier == "quick" else [1, 2, 4, 8, 9, 16, 64, 128, 511, 512, 513, 1024, 1536, 2048, 4096, 10240])]
        faults += [{"kind": "flip", "frac": rng.random(), "n": rng.choice([1, 1, 3])} for _ in range(3 if tier == "quick" else 12)]
        faults += [{"kind": "dup", "pos": p} for p in ("first", "middle", "last")]
        faults += [{"kind": "bad-identifier-row", "ident": i} for i in rng.sample(["//exp :e", "//exp:e\n", "//a:b:e", "exp:e", "//a.b:e", "//:", "//x/:e e"], 2)]
        faults += [{"kind": "preexisting-dir", "i": rng.randrange(100)} for _ in range(2)]
        faults += [{"kind": "sigkill", "delay": rng.uniform(0.0, 0.08)} for _ in range(4 if tier == "quick" else 24)]
        groups.append((base, faults))
    # crash points: counted once on the first base
    c = common.parallel_map(count_lines, [bases[0], bases[1]], timeout=300)
    total_events = 0
    sites = set()
    for bi, (kind, cc) in enumerate(c):
        if kind != "ok" or "error" in cc:
            rep.inconc("line counting failed", str(cc)[-300:])
            continue
        total_events += cc["n"]
        ks = []
        for site, occ in cc["sites"].items():
            sites.add(site)
            crit = site.startswith(("cli/restore.py", "execution/version_index.py", "shutil.py"))
            if tier == "thorough":
                ks += occ
            elif crit:
                ks += occ if len(occ) <= 3 else occ[:2] + occ[-1:]
            elif bi == 0:
                ks += occ[:1]
        ks = sorted(set(ks))
        rng.shuffle(ks)
        size = max(10, len(ks) // 14 + 1)
        for i in range(0, len(ks), size):
            groups.append((bases[bi], [{"kind": "crash", "k": k} for k in ks[i:i + size]]))
    if n:
        groups = groups[:n]
    rep.extra["restore_line_events"] = total_events
    rep.extra["restore_distinct_sites"] = len(sites)
    res = common.parallel_map(eval_group, groups, timeout=1800)
    rep.merge_pool(res, groups)
    rep.evaluations = rep.reach.get("c12_cases", 0)
    rep.distinct = set(rep.extra.get("case_sigs", ()))
    return rep.finish(required_reach=["c12_restores", "c12_success_checks", "c12_failure_checks", "c12_existing_dir_checks", "c12_existing_unrecorded_dir_checks", "c12_fault_crash", "c12_fault_dup", "c12_fault_truncate", "c12_fault_truncate-bytes", "c12_nontrivial"])


def replay(path):
    with open(path) as f:
        v = json.load(f)
    w = v["witness"]
    out = eval_group((w["base"], [w["fault"]]))
    for x in out["violations"]:
        print(x["msg"])
        print("VIOLATION property=%s replay=%s" % (PROP, path))
    return 1 if out["violations"] else 0
