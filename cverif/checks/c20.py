"""C20 - task identifiers: one grammar, canonical form, distinct output locations.

Workload: exhaustive strings over a 13-symbol alphabet (identifier characters, separators,
whitespace, control characters, a non-ASCII letter) pushed through the real
TaskIdentifier.is_name_valid / from_str (both require_prefix values) / from_relative_str;
oracle: a hand-written recursive-descent recogniser of the documented grammar (no `re`), round
trip and canonical-form postconditions, relative-dependency resolution through the real loader,
injectivity of output locations through the real task types, and a CLI sample."""
import itertools
import json
import os
import pathlib
import types

from .. import common, cli, gen, contracts

PROP = "C20"
ALPHABET = ["a", "Z", "0", "-", "_", "/", ":", " ", "\n", "\t", ".", "\0", "\u00e9"]
IDENT_CHARS = set("abcdefghijklmnopqrstuvwxyzABCDEFGHIJKLMNOPQRSTUVWXYZ0123456789_-")
RULE = ("all strings over {a,Z,0,-,_,/,:,space,\\n,\\t,.,NUL,e-acute} up to length 5 (quick) / 6 plus length 7-9 over {a,-,/,:,\\n} (thorough), each through 4 entry points; "
        "non-trivial = string the recogniser or Conductor accepts, or that differs from an accepted string by one symbol; distinct strings counted")


# ---------------------------------------------------------------- reference recogniser (no re)
def ref_name(s):
    return isinstance(s, str) and len(s) > 0 and all(c in IDENT_CHARS for c in s)


def ref_ident(s, require_prefix):
    """['//'] [seg ('/' seg)* ['/']] ':' name   -> (path tuple, name) or None"""
    i = 0
    pref = s.startswith("//")
    if pref:
        i = 2
    elif require_prefix:
        return None
    rest = s[i:]
    if rest.count(":") != 1:
        return None
    path, name = rest.split(":")
    if not ref_name(name):
        return None
    if path == "":
        return ((), name)
    if path.endswith("/"):
        path = path[:-1]
    segs = path.split("/")
    if not all(ref_name(x) for x in segs):
        return None
    return (tuple(segs), name)


def ref_rel(s):
    if s.startswith(":") and ref_name(s[1:]):
        return s[1:]
    return None


# ---------------------------------------------------------------- workload pieces
def strings_with_prefix(prefix, maxlen, alphabet):
    yield prefix
    for n in range(1, maxlen - len(prefix) + 1):
        for tup in itertools.product(alphabet, repeat=n):
            yield prefix + "".join(tup)


def eval_chunk(arg):
    prefix, maxlen, alphabet = arg
    common.import_repo()
    from conductor.task_identifier import TaskIdentifier
    from conductor.errors import InvalidTaskIdentifier
    out = {"sig": "chunk-" + repr(prefix), "nontrivial": True, "reach": {}, "violations": [], "inconclusive": [], "sets": {}}
    n = acc = 0
    reldir = pathlib.Path("p", "q")
    crashed = object()

    def viol(key, msg, s):
        if len(out["violations"]) < 3:
            out["violations"].append({"key": key, "msg": msg, "witness": {"engine": "E5", "string": s, "repr": repr(s)}})

    for s in strings_with_prefix(prefix, maxlen, alphabet):
        n += 1
        # 1. names
        got = TaskIdentifier.is_name_valid(s)
        if got != ref_name(s):
            viol("C20:name-grammar-mismatch", "is_name_valid(%r) = %s, documented grammar says %s" % (s, got, ref_name(s)), s)
        # 2. identifiers, both prefix modes
        for rp in (True, False):
            want = ref_ident(s, rp)
            try:
                t = TaskIdentifier.from_str(s, require_prefix=rp)
            except InvalidTaskIdentifier:
                t = None
            except Exception as ex:  # anything else is not a clean rejection
                viol("C20:identifier-parse-crash", "from_str(%r, require_prefix=%s) raised %r" % (s, rp, ex), s)
                continue
            if (t is None) != (want is None):
                viol("C20:identifier-grammar-mismatch", "from_str(%r, require_prefix=%s) %s, documented grammar %s" % (s, rp, "accepted" if t is not None else "rejected", "accepts" if want else "rejects"), s)
                continue
            if t is None:
                continue
            acc += 1
            if (tuple(t.path.parts), t.name) != want:
                viol("C20:identifier-parsed-to-wrong-parts", "from_str(%r) -> path=%r name=%r, grammar says %r" % (s, t.path.parts, t.name, want), s)
                continue
            canon = str(t)
            try:
                t2 = TaskIdentifier.from_str(canon)
            except Exception as ex:
                viol("C20:printed-identifier-does-not-parse", "str(from_str(%r)) = %r does not parse back: %r" % (s, canon, ex), s)
                continue
            if not (t2 == t) or str(t2) != canon or hash(t2) != hash(t):
                viol("C20:round-trip-changes-identifier", "from_str(%r) -> %r -> %r" % (s, canon, str(t2)), s)
            if canon != "//" + "/".join(want[0]) + ":" + want[1]:
                viol("C20:non-canonical-print", "str(from_str(%r)) = %r" % (s, canon), s)
        # 3. relative form
        wantr = ref_rel(s)
        try:
            tr = TaskIdentifier.from_relative_str(s, reldir)
        except InvalidTaskIdentifier:
            tr = None
        except Exception as ex:
            viol("C20:identifier-parse-crash", "from_relative_str(%r) raised %r" % (s, ex), s)
            tr = crashed
        if tr is not crashed:
            if (tr is None) != (wantr is None):
                viol("C20:relative-identifier-grammar-mismatch", "from_relative_str(%r) %s, documented grammar %s" % (s, "accepted" if tr is not None else "rejected", "accepts" if wantr else "rejects"), s)
            elif tr is not None and (tr.name != wantr or tr.path != reldir):
                viol("C20:relative-identifier-resolves-elsewhere", "from_relative_str(%r, p/q) -> %r" % (s, str(tr)), s)
    out["reach"]["c20_strings"] = n
    out["reach"]["c20_accepted_parses"] = acc
    out["reach"]["c20_oracle_evaluations"] = n * 4
    out["sample"] = {"chunk_prefix": prefix, "strings": n, "accepted_parses": acc}
    out["nstrings"] = n
    return out


def injectivity_and_resolution(_):
    common.import_repo()
    from conductor.task_identifier import TaskIdentifier
    from conductor.task_types.run import RunCommand, RunExperiment
    from conductor.task_types.combine import Combine
    from conductor.execution.version_index import Version
    from conductor.parsing.task_index import TaskIndex
    out = {"sig": "injectivity", "nontrivial": True, "reach": {}, "violations": [], "inconclusive": [], "sets": {}}
    paths = [(), ("a",), ("a", "b"), ("a-b",), ("a_b",), ("b",), ("a", "b", "task"), ("task",)]
    names = ["a", "b", "a-b", "a_b", "task", "a-task", "t1", "1", "b-task-1"]
    versions = [None, 1, 12, 112, 1120]
    seen = {}
    mon = contracts.Monitor()

    class VI:
        def __init__(self, v):
            self.v = v

        def get_latest_output_version(self, ident):
            return self.v

    outroot = pathlib.Path("/proj/cond-out")
    for p in paths:
        for nm in names:
            ident = TaskIdentifier(pathlib.Path(*p), nm)
            for v in versions:
                for cls in ((RunCommand, Combine) if v is None else (RunExperiment,)):
                    if cls is Combine:
                        t = cls(identifier=ident, cond_file_path=pathlib.Path("/proj", *p, "COND"), deps=[])
                    else:
                        t = cls(identifier=ident, cond_file_path=pathlib.Path("/proj", *p, "COND"), deps=[], run="true", args=[], options={}, parallelizable=False)
                    ctx = types.SimpleNamespace(output_path=outroot, uses_git=False, project_root=pathlib.Path("/proj"),
                                                version_index=VI(Version(v, None, False) if v is not None else None))
                    op = t.get_output_path(ctx)
                    out["reach"]["c20_output_paths"] = out["reach"].get("c20_output_paths", 0) + 1
                    key = (str(ident), v)
                    want = outroot.joinpath(*p) / (nm + ".task" + ("" if v is None else "." + str(v)))
                    if op != want:
                        out["violations"].append({"key": "C20:output-path-not-documented-layout", "msg": "%s version %s -> %s, documented cond-out/<path>/<name>.task[.<version>] = %s" % (ident, v, op, want), "witness": {"ident": str(ident), "version": v}})
                    prev = seen.get(str(op))
                    if prev is not None and prev != key:
                        out["violations"].append({"key": "C20:two-identifiers-share-an-output-directory", "msg": "%r and %r both map to %s" % (prev, key, op), "witness": {"a": prev, "b": key}})
                    seen[str(op)] = key
    # relative deps resolve against the directory of the COND file that lists them
    with common.Scratch("cv20") as sc:
        root = os.path.join(sc.root, "p")
        tasks = []
        for pkg in ("", "a", "a/b", "c-d"):
            tasks.append(gen.mk_task(pkg, "leaf", "run_command"))
            tasks.append(gen.mk_task(pkg, "mid", "run_command", [gen.tid(pkg, "leaf")]))
            tasks.append(gen.mk_task(pkg, "top", "group", [gen.tid(pkg, "mid"), gen.tid(pkg, "leaf")] + ([gen.tid("", "leaf")] if pkg else [])))
        gen.write_project(root, tasks)
        idx = TaskIndex(pathlib.Path(root))
        for t in tasks:
            ident = TaskIdentifier.from_str(t["id"])
            try:
                idx.load_transitive_closure(ident)
                got = [str(d) for d in idx.get_task(ident).deps]
            except Exception as ex:  # a sound project: any error here means a dependency was resolved to the wrong place
                out["reach"]["c20_relative_dep_resolutions"] = out["reach"].get("c20_relative_dep_resolutions", 0) + 1
                out["violations"].append({"key": "C20:relative-dependency-resolved-against-wrong-directory", "msg": "%s lists %s (all defined next to it); loading failed with %s: %s" % (t["id"], t["dep_strs"], type(ex).__name__, getattr(ex, "printable_message", lambda: str(ex))()), "witness": {"task": t}})
                continue
            out["reach"]["c20_relative_dep_resolutions"] = out["reach"].get("c20_relative_dep_resolutions", 0) + len(got)
            if got != t["deps"]:
                out["violations"].append({"key": "C20:relative-dependency-resolved-against-wrong-directory", "msg": "%s lists %s; loaded deps %s, expected %s" % (t["id"], t["dep_strs"], got, t["deps"]), "witness": {"task": t}})
    # the same relative spelling coming from ONE shared object (a list defined in an included file) used
    # by COND files in different directories, all loaded by one command
    with common.Scratch("cv20i") as sc:
        root = os.path.join(sc.root, "p")
        os.makedirs(root)
        open(os.path.join(root, "cond_config.toml"), "w").write("disable_git = true\n")
        open(os.path.join(root, "common.cond"), "w").write("COMMON_DEPS = [':prepare']\nMORE = [':prepare', ':extra']\n")
        for pk in ("a", "b", "c/d"):
            os.makedirs(os.path.join(root, pk))
            open(os.path.join(root, pk, "COND"), "w").write("include('//common.cond')\nrun_command(name='prepare', run='true')\nrun_command(name='extra', run='true')\n"
                                                           "run_command(name='main', run='true', deps=COMMON_DEPS)\nrun_command(name='main2', run='true', deps=MORE)\n")
        open(os.path.join(root, "COND"), "w").write("group(name='top', deps=['//a:main', '//b:main', '//c/d:main', '//b:main2', '//a:main2', '//c/d:main2'])\n")
        for order in (["//:top"], ["//b:main", "//a:main", "//:top"], ["//c/d:main2", "//:top"]):
            idx = TaskIndex(pathlib.Path(root))
            try:
                for tgt in order:
                    idx.load_transitive_closure(TaskIdentifier.from_str(tgt))
                for pk in ("a", "b", "c/d"):
                    for nm, want in (("main", ["//%s:prepare" % pk]), ("main2", ["//%s:prepare" % pk, "//%s:extra" % pk])):
                        got = [str(x) for x in idx.get_task(TaskIdentifier.from_str("//%s:%s" % (pk, nm))).deps]
                        out["reach"]["c20_relative_dep_resolutions"] = out["reach"].get("c20_relative_dep_resolutions", 0) + 1
                        if got != want:
                            out["violations"].append({"key": "C20:relative-dependency-resolved-against-wrong-directory", "msg": "//%s:%s takes its deps from a list shared through an included file; loaded deps %s, expected %s (load order %s)" % (pk, nm, got, want, order), "witness": {"order": order}})
            except Exception as ex:
                out["violations"].append({"key": "C20:relative-dependency-resolved-against-wrong-directory", "msg": "sound project with a shared deps list failed to load (%s): %s" % (order, getattr(ex, "printable_message", lambda: repr(ex))()), "witness": {"order": order}})
    # a package whose COND file (or whole directory) is a symbolic link to another package's: ':name' still
    # means "in the directory of the COND file that lists it", i.e. the package it was reached through
    with common.Scratch("cv20s") as sc:
        root = os.path.join(sc.root, "p")
        os.makedirs(os.path.join(root, "a"))
        os.makedirs(os.path.join(root, "b"))
        open(os.path.join(root, "cond_config.toml"), "w").write("disable_git = true\n")
        open(os.path.join(root, "a", "COND"), "w").write("run_command(name='prep', run='true')\nrun_command(name='main', run='true', deps=[':prep'])\n")
        os.symlink("../a/COND", os.path.join(root, "b", "COND"))
        os.symlink("a", os.path.join(root, "c"))
        for pk in ("a", "b", "c"):
            idx = TaskIndex(pathlib.Path(root))
            try:
                idx.load_transitive_closure(TaskIdentifier.from_str("//%s:main" % pk))
                got = [str(x) for x in idx.get_task(TaskIdentifier.from_str("//%s:main" % pk)).deps]
            except Exception as ex:
                got = "error: %r" % ex
            out["reach"]["c20_relative_dep_resolutions"] = out["reach"].get("c20_relative_dep_resolutions", 0) + 1
            if got != ["//%s:prep" % pk]:
                out["violations"].append({"key": "C20:relative-dependency-resolved-against-wrong-directory", "msg": "//%s:main (its COND file is %s) lists ':prep'; loaded deps %s, expected ['//%s:prep']" % (pk, "a symlink" if pk != "a" else "a regular file", got, pk), "witness": {"pkg": pk}})
    out["violations"] = out["violations"][:4]
    out["sample"] = {"output_paths_checked": out["reach"].get("c20_output_paths"), "example": sorted(seen)[:5]}
    return out


def char_sweep(_):
    """every single character (all of ASCII, Latin-1, and a sample of other scripts / categories) placed
    into each position class of names and identifiers"""
    common.import_repo()
    from conductor.task_identifier import TaskIdentifier
    from conductor.errors import InvalidTaskIdentifier
    out = {"sig": "char-sweep", "nontrivial": True, "reach": {}, "violations": [], "inconclusive": [], "sets": {}}
    chars = [chr(c) for c in range(0, 0x250)] + list("\u0391\u03b1\u0416\u05d0\u0660\u0663\u0966\u4e2d\u3042\uff21\uff10\u2160\u00b2\u2070\u200b\u200d\ufeff\u202e\U0001d7ce\U0001f600")
    templates = ["{c}", "x{c}", "{c}x", "x{c}y", "//a{c}:b", "//a:b{c}", "//{c}a:b", "//a/{c}:b", ":{c}", ":x{c}", "a{c}b:c", "//a:{c}b"]
    n = 0
    for c in chars:
        for tpl in templates:
            s = tpl.replace("{c}", c)
            n += 1
            if TaskIdentifier.is_name_valid(s) != ref_name(s):
                out["violations"].append({"key": "C20:name-grammar-mismatch", "msg": "is_name_valid(%r) = %s (character U+%04X)" % (s, TaskIdentifier.is_name_valid(s), ord(c)), "witness": {"engine": "E5", "string": s}})
            for rp in (True, False):
                try:
                    t = TaskIdentifier.from_str(s, require_prefix=rp)
                except InvalidTaskIdentifier:
                    t = None
                except Exception as ex:
                    t = None
                    out["violations"].append({"key": "C20:identifier-parse-crash", "msg": "from_str(%r) raised %r" % (s, ex), "witness": {"engine": "E5", "string": s}})
                if (t is None) != (ref_ident(s, rp) is None):
                    out["violations"].append({"key": "C20:identifier-grammar-mismatch", "msg": "from_str(%r, require_prefix=%s) %s (character U+%04X)" % (s, rp, "accepted" if t is not None else "rejected", ord(c)), "witness": {"engine": "E5", "string": s}})
            try:
                tr = TaskIdentifier.from_relative_str(s, pathlib.Path("p"))
            except InvalidTaskIdentifier:
                tr = None
            if (tr is None) != (ref_rel(s) is None):
                out["violations"].append({"key": "C20:relative-identifier-grammar-mismatch", "msg": "from_relative_str(%r) %s (character U+%04X)" % (s, "accepted" if tr is not None else "rejected", ord(c)), "witness": {"engine": "E5", "string": s}})
    out["reach"]["c20_char_sweep_strings"] = n
    out["violations"] = out["violations"][:4]
    out["sample"] = {"char_sweep": n}
    return out


def cli_sample(arg):
    cli.warm()
    strings, = arg
    out = {"sig": "cli-sample", "nontrivial": True, "reach": {}, "violations": [], "inconclusive": [], "sets": {}}
    with common.Scratch("cv20c") as sc:
        root = os.path.join(sc.root, "p")
        tasks = [gen.mk_task("", "a", "run_command"), gen.mk_task("a", "a", "run_command"), gen.mk_task("a/Z", "a", "run_command"), gen.mk_task("a", "Z", "run_command"), gen.mk_task("", "Z", "run_command")]
        gen.write_project(root, tasks)
        defined = {t["id"] for t in tasks}
        for s in strings:
            if "\0" in s:
                continue  # cannot be passed in argv
            r = cli.run_cli(["where", "-f", s] if not s.startswith("-") else ["where", "-f", "--", s], root, sc.root, timeout=60)
            want = ref_ident(s, False)
            out["reach"]["c20_cli_where"] = out["reach"].get("c20_cli_where", 0) + 1
            W = {"engine": "cli", "string": s, "result": cli.brief(r)}
            if "Traceback" in r.err:
                out["violations"].append({"key": "C20:cli-traceback-on-identifier", "msg": "cond where -f %r printed a traceback: %s" % (s, r.err[-400:]), "witness": W})
                continue
            if want is None:
                if r.code == 0:
                    out["violations"].append({"key": "C20:cli-accepts-malformed-identifier", "msg": "cond where -f %r exited 0 printing %r although the string is outside the grammar" % (s, r.out), "witness": W})
                elif "nvalid task identifier" not in r.err and "rror" not in r.err and "usage" not in r.err:
                    out["violations"].append({"key": "C20:cli-unclear-rejection", "msg": "cond where -f %r: exit %s, stderr %r" % (s, r.code, r.err[-300:]), "witness": W})
            else:
                ident = "//" + "/".join(want[0]) + ":" + want[1]
                if ident in defined:
                    exp = os.path.join(root, "cond-out", *want[0], want[1] + ".task")
                    if r.code != 0 or r.out.strip() != exp:
                        out["violations"].append({"key": "C20:cli-where-wrong-location", "msg": "cond where -f %r -> exit %s %r, expected %s" % (s, r.code, r.out.strip(), exp), "witness": W})
                elif r.code == 0:
                    out["violations"].append({"key": "C20:cli-accepts-undefined-task", "msg": "cond where -f %r exited 0 (%r) although %s is not defined" % (s, r.out, ident), "witness": W})
        # names as written in COND files: acceptance by `cond run --check`
        for nm in ["a", "a-b", "a b", "a\n", "a.b", "a/b", "", "\u00e9", "a:b", "Z_0-"]:
            proot = os.path.join(sc.root, "n%d" % abs(hash(nm)))
            os.makedirs(proot)
            open(os.path.join(proot, "cond_config.toml"), "w").write("disable_git = true\n")
            open(os.path.join(proot, "COND"), "w").write("run_command(name=%r, run='true')\nrun_command(name='probe', run='true')\n" % nm)
            r = cli.run_cli(["run", "//:probe", "--check"], proot, sc.root, timeout=60)
            out["reach"]["c20_cli_names"] = out["reach"].get("c20_cli_names", 0) + 1
            ok = ref_name(nm)
            W = {"engine": "cli", "name": nm, "result": cli.brief(r)}
            if "Traceback" in r.err:
                out["violations"].append({"key": "C20:cli-traceback-on-name", "msg": "name %r: traceback %s" % (nm, r.err[-300:]), "witness": W})
            elif ok != (r.code == 0):
                out["violations"].append({"key": "C20:name-grammar-mismatch", "msg": "COND file with task name %r: cond run --check exit %s, grammar says %s" % (nm, r.code, "valid" if ok else "invalid"), "witness": W})
    # identifiers also enter through the index of an archive: a row naming a task by a string outside the
    # grammar must make `cond restore` fail instead of being accepted as an identifier
    if strings and strings[0] == "//:a":
        import sqlite3
        import subprocess
        from .. import realrun
        with common.Scratch("cv20r") as sc:
            src = realrun.Project(sc.sub("s"), [gen.mk_task("exp", "e", "run_experiment")], {"//exp:e": {"steps": [["file", "o", realrun.b64(b"x")]]}}, name="s")
            src.cond(["run", "//exp:e"], timeout=60)
            good = os.path.join(sc.root, "good.tar.gz")
            src.cond(["archive", "-o", good], timeout=60)
            for bad in ["//exp :e", "//exp:e\n", "//a:b:e", "exp:e", "//exp.x:e", "//exp:e.f"]:
                work = sc.sub()
                subprocess.run(["tar", "xzf", good, "-C", work], check=True)
                c = sqlite3.connect(os.path.join(work, "version_index_archive.sqlite"))
                c.execute("DELETE FROM version_index")
                c.execute("INSERT INTO version_index (task_identifier, timestamp, git_commit_hash, has_uncommitted_changes) VALUES (?, 777, NULL, 0)", (bad,))
                c.commit()
                c.close()
                path_part, _, name_part = (bad[2:] if bad.startswith("//") else bad).rpartition(":")
                try:
                    os.makedirs(os.path.join(work, path_part, "%s.task.777" % name_part), exist_ok=True)
                    open(os.path.join(work, path_part, "%s.task.777" % name_part, "f"), "w").write("x")
                except (OSError, ValueError):
                    continue
                arch = os.path.join(work, "bad.tar.gz")
                subprocess.run(["tar", "czf", arch, "-C", work] + sorted(x for x in os.listdir(work) if x != "bad.tar.gz"), check=True)
                dst = realrun.Project(sc.sub(), [gen.mk_task("exp", "e", "run_experiment")], {}, name="d")
                r = dst.cond(["restore", arch], timeout=60)
                out["reach"]["c20_restore_identifier_checks"] = out["reach"].get("c20_restore_identifier_checks", 0) + 1
                rows = dst.rows()
                if r.code == 0 or (isinstance(rows, list) and any(x[0] == bad for x in rows)):
                    out["violations"].append({"key": "C20:restore-accepts-malformed-identifier", "msg": "cond restore accepted an archive index row naming the task %r (exit %s, rows %s)" % (bad, r.code, rows), "witness": {"engine": "cli", "string": bad, "result": cli.brief(r)}})
    out["sample"] = {"cli_strings": strings[:8]}
    return out


def main(tier, n=None):
    rep = common.Report(PROP, tier, "exploration", RULE)
    rep.assumptions = ["the documented grammar is: optional leading //, slash-separated segments of [A-Za-z0-9_-]+ (a trailing slash before ':' is admitted and canonicalised, as the code does deliberately), ':' and a name of [A-Za-z0-9_-]+"]
    maxlen = 5 if tier == "quick" else 6
    if n:
        maxlen = 4
    cases = [(a + b, maxlen, ALPHABET) for a in ALPHABET for b in ALPHABET]
    cases += [("", 1, ALPHABET)]
    if tier == "thorough" and not n:
        small = ["a", "-", "/", ":", "\n"]
        cases += [(a + b + c, 9, small) for a in small for b in small for c in small]
    cli.warm()
    res = common.parallel_map(eval_chunk, cases, timeout=1800)
    total = 0
    for kind, val in res:
        if kind == "ok":
            total += val.pop("nstrings", 0)
    rep.merge_pool(res, cases)
    # strings are distinct by construction; count them as the distinct non-trivial cases
    rep.extra["distinct_strings"] = total
    rep.exhaustive = True
    res2 = common.parallel_map(injectivity_and_resolution, [0], timeout=300)
    rep.merge_pool(res2)
    rep.merge_pool(common.parallel_map(char_sweep, [0], timeout=300))
    rng = common.rng_for("c20cli", common.base_seed())
    pool = ["//:a", ":a", "a:a", "//a:a", "//a/:a", "a/Z:a", "//a/Z/:a", "//a:Z", ":Z", "//:a\n", "//a:a\n", " //:a", "//:a ", "//a//Z:a", "/a:a", "///:a", "//a:a:a", "//a.b:a", "//:nope", "//nope:a", "a", "//", ":", "//:", "\u00e9:a", "//a:\u00e9"]
    extra = ["".join(rng.choice(ALPHABET) for _ in range(rng.randint(1, 7))) for _ in range(60 if tier == "quick" else 600)]
    chunks = [pool] + [extra[i:i + 20] for i in range(0, len(extra), 20)]
    res3 = common.parallel_map(cli_sample, [(c,) for c in chunks], timeout=600)
    rep.merge_pool(res3)
    rep.evaluations = total + len(chunks) + 1
    # every enumerated string is distinct by construction; accepted parses are the non-trivial ones
    rep.distinct = set(range(rep.reach.get("c20_accepted_parses", 0)))
    code = rep.finish(required_reach=["c20_strings", "c20_accepted_parses", "c20_output_paths", "c20_relative_dep_resolutions", "c20_cli_where", "c20_cli_names", "c20_char_sweep_strings"])
    return code


def replay(path):
    common.import_repo()
    with open(path) as f:
        v = json.load(f)
    s = v["witness"].get("string")
    if s is None:
        print("replay: witness has no string; re-run the check")
        return 2
    out = eval_chunk((s, len(s), []))
    for x in out["violations"]:
        print(x["msg"])
        print("VIOLATION property=%s replay=%s" % (PROP, path))
    return 1 if out["violations"] else 0
