"""C15 - COND definitions: well-formed accepted, malformed rejected cleanly.

Grammar-based workload over the documented constructors (each constructor x each parameter x
{omitted, right type, every wrong type, boundary strings}), Python failures inside COND files
and included files, the include() matrix; every case goes through the real loader in-process
(TaskIndex.load_transitive_closure) and a sample through the real CLI (`cond run --check`,
`cond run`).  Oracle: a reference validator written from the documentation."""
import base64
import json
import os
import pathlib

from .. import common, cli, gen

PROP = "C15"
RULE = ("COND sources from the documented constructors run_command/run_experiment/group/combine: each parameter x {omitted, right type, None/int/float/bool/str/bytes/list/tuple/dict/set/object}, "
        "boundary names and identifiers, element types inside args/options/deps, duplicates, positional calls, unknown parameters; Python failures (raise, ZeroDivisionError, NameError, SyntaxError, "
        "bad import, RecursionError, non-UTF-8, NUL bytes, COND is a directory) in the COND file or an included file; include() matrix; random compositions; non-trivial = every case; distinct = hash(files)")

SCHEMA = {
    "run_command": {"name": "req", "run": "req", "parallelizable": "opt", "args": "opt", "options": "opt", "deps": "opt"},
    "run_experiment": {"name": "req", "run": "req", "parallelizable": "opt", "args": "opt", "options": "opt", "deps": "opt"},
    "group": {"name": "req", "deps": "opt"},
    "combine": {"name": "req", "deps": "opt"},
}
VALUES = [("None", None), ("0", 0), ("7", 7), ("2.5", 2.5), ("True", True), ("False", False), ("'s'", "s"), ("''", ""), ("b'bytes'", b"bytes"), ("[]", []), ("['x']", ["x"]), ("()", ()),
          ("('x',)", ("x",)), ("{}", {}), ("{'k': 1}", {"k": 1}), ("set()", set()), ("object()", object()), ("[1, 'a', 2.5, True]", [1, "a", 2.5, True]), ("[None]", [None]), ("[[1]]", [[1]]),
          ("{1: 'a'}", {1: "a"}), ("{'k': None}", {"k": None}), ("{'k': [1]}", {"k": [1]}), ("{'a': 1, 'b': 'x', 'c': 1.5, 'd': False}", {"a": 1, "b": "x", "c": 1.5, "d": False}),
          ("[':h1']", [":h1"]), ("[':h1', '//lib:h2']", [":h1", "//lib:h2"]), ("[':h1', ':h1']", [":h1", ":h1"]), ("[':h1', '//:h1']", [":h1", "//:h1"]), ("[5]", [5]), ("[':h1', None]", [":h1", None]),
          ("float('nan')", float("nan")), ("[float('inf'), -0.0]", [float("inf"), -0.0]), ("{'k': float('nan')}", {"k": float("nan")}), ("10**30", 10 ** 30)]
IDENT = set("abcdefghijklmnopqrstuvwxyzABCDEFGHIJKLMNOPQRSTUVWXYZ0123456789_-")
NAMES = ["t", "T-1_x", "a" * 200, "", " ", "a b", "a.b", "a/b", "a:b", "é", "a\n", "\ta", "-", "_", "0", "--", "t\0", "name!", "a+b", "COND"]
DEP_STRS = [":h1", "//:h1", "//lib:h2", "lib:h2", "//lib/:h2", "//lib/deep:h3", ":h1\n", " :h1", "h1", "//h1", ":", "//:", "//lib", "//lib:", ":h 1", "//lib//deep:h3", "/lib:h2", "///lib:h2", "//lib:h2:x", "//lib/deep/:h3", "//LIB:h2"]

HELPERS = {"": "run_command(name='h1', run='true')\n", "lib": "run_command(name='h2', run='true')\n", "lib/deep": "run_experiment(name='h3', run='true')\n"}


def prim(v):
    return isinstance(v, (str, bool, int, float))


def ref_name(s):
    return isinstance(s, str) and len(s) > 0 and all(c in IDENT for c in s)


def ref_dep(s, pkg=""):
    """-> canonical id or None"""
    if not isinstance(s, str):
        return None
    if s.startswith(":"):
        return "//%s:%s" % (pkg, s[1:]) if ref_name(s[1:]) else None
    if not s.startswith("//"):
        return None
    rest = s[2:]
    if rest.count(":") != 1:
        return None
    p, n = rest.split(":")
    if not ref_name(n):
        return None
    if p.endswith("/"):
        p = p[:-1]
    if p and not all(ref_name(x) for x in p.split("/")):
        return None
    return "//%s:%s" % (p, n)


DEFINED = {"//:h1", "//lib:h2", "//lib/deep:h3"}


def ref_valid(ctor, kwargs, positional=False):
    """reference validator from the documentation; kwargs values are Python objects"""
    if positional:
        return False
    sch = SCHEMA[ctor]
    for k in kwargs:
        if k not in sch:
            return False
    for k, need in sch.items():
        if need == "req" and k not in kwargs:
            return False
    if "name" in kwargs and not ref_name(kwargs["name"]):
        return False
    if "run" in kwargs and not isinstance(kwargs["run"], str):
        return False
    if "parallelizable" in kwargs and not isinstance(kwargs["parallelizable"], bool):
        return False
    if "args" in kwargs:
        a = kwargs["args"]
        if not isinstance(a, list) or not all(prim(x) for x in a):
            return False
    if "options" in kwargs:
        o = kwargs["options"]
        if not isinstance(o, dict) or not all(isinstance(k, str) and prim(v) for k, v in o.items()):
            return False
    if "deps" in kwargs:
        d = kwargs["deps"]
        if not isinstance(d, list):
            return False
        canon = [ref_dep(x) for x in d]
        if any(c is None for c in canon):
            return False
        if len(set(canon)) != len(canon):
            return False
        if any(c not in DEFINED for c in canon):
            return None  # well-formed but dangling: C14's business, not judged here
        if ctor == "combine" and len({c.rsplit(":", 1)[1] for c in canon}) != len(canon):
            return False
    return True


def call_src(ctor, ksrc, positional=None):
    if positional is not None:
        return "%s(%s)\n" % (ctor, ", ".join(positional))
    return "%s(%s)\n" % (ctor, ", ".join("%s=%s" % (k, v) for k, v in ksrc.items()))


def base_kwargs(ctor):
    src = {"name": "'t'"}
    val = {"name": "t"}
    if ctor in ("run_command", "run_experiment"):
        src["run"] = "'true'"
        val["run"] = "true"
    return src, val


def mk_case(target_src, expect, why, extra_files=None, raw_cond=None, target="//:t"):
    files = {}
    for pkg, s in HELPERS.items():
        files[os.path.join(pkg, "COND")] = s
    if raw_cond is not None:
        files["COND"] = raw_cond
    else:
        files["COND"] = HELPERS[""] + target_src
    for k, v in (extra_files or {}).items():
        files[k] = v
    return {"files": {k: (v if isinstance(v, str) else {"b64": base64.b64encode(v).decode()}) for k, v in files.items()}, "target": target, "expect": expect, "why": why}


def systematic_cases():
    cases = []
    for ctor, sch in SCHEMA.items():
        bs, bv = base_kwargs(ctor)
        cases.append(mk_case(call_src(ctor, bs), True, "%s minimal" % ctor))
        # each parameter omitted
        for p in sch:
            s2 = {k: v for k, v in bs.items() if k != p}
            v2 = {k: v for k, v in bv.items() if k != p}
            if s2 != bs:
                cases.append(mk_case(call_src(ctor, s2), ref_valid(ctor, v2), "%s without %s" % (ctor, p)))
        # each parameter x each value
        for p in list(sch) + ["unknown_param"]:
            for vs, vv in VALUES:
                s2, v2 = dict(bs), dict(bv)
                s2[p] = vs
                v2[p] = vv
                e = ref_valid(ctor, v2)
                if e is None:
                    continue
                if p == "name" and isinstance(vv, str) and ref_name(vv):
                    tgt = "//:" + vv
                else:
                    tgt = "//:t" if p != "name" else None
                cases.append(mk_case(call_src(ctor, s2), e, "%s(%s=%s)" % (ctor, p, vs), target=tgt or "//:t") if tgt else
                             mk_case(call_src(ctor, s2) + call_src(ctor, bs), False, "%s(%s=%s) [probe through valid sibling]" % (ctor, p, vs)))
        # positional
        cases.append(mk_case(call_src(ctor, None, positional=["'t'"] + (["'true'"] if "run" in sch else [])), False, "%s positional" % ctor))
        cases.append(mk_case(call_src(ctor, None, positional=[]), False, "%s()" % ctor))
        # names
        for nm in NAMES:
            if "\0" in nm:
                continue
            s2 = dict(bs)
            s2["name"] = repr(nm)
            ok = ref_name(nm)
            if ok:
                cases.append(mk_case(call_src(ctor, s2), True, "%s name %r" % (ctor, nm), target="//:" + nm))
            else:
                cases.append(mk_case(call_src(ctor, s2) + call_src(ctor, bs), False, "%s name %r" % (ctor, nm)))
        # dependency strings
        for ds in DEP_STRS:
            s2, v2 = dict(bs), dict(bv)
            s2["deps"] = "[%r]" % ds
            v2["deps"] = [ds]
            e = ref_valid(ctor, v2)
            if e is None:
                continue
            cases.append(mk_case(call_src(ctor, s2), e, "%s deps=[%r]" % (ctor, ds)))
        # duplicate task names in one file
        cases.append(mk_case(call_src(ctor, bs) + call_src(ctor, bs), False, "%s duplicate name" % ctor))
        cases.append(mk_case(call_src(ctor, bs) + "group(name='t')\n", False, "%s then group with the same name" % ctor))
    # combine: same dependency *name* from different packages
    cases.append(mk_case("combine(name='t', deps=['//:h1', '//lib:h2'])\n", True, "combine distinct names"))
    cases.append(mk_case("combine(name='t', deps=[':x', '//lib:x'])\n", False, "combine duplicate dep name", extra_files={"lib/COND": HELPERS["lib"] + "run_command(name='x', run='true')\n"},
                         raw_cond=HELPERS[""] + "run_command(name='x', run='true')\ncombine(name='t', deps=[':x', '//lib:x'])\n"))
    # names are case-sensitive: Data and data are two names (combine), T and t two tasks of one file
    for a, b in (("Data", "data"), ("x", "X"), ("a-B", "A-b"), ("run_1", "RUN_1")):
        cases.append(mk_case(None, True, "combine dependency names differing only in case %s/%s" % (a, b),
                             raw_cond=HELPERS[""] + "run_command(name=%r, run='true')\nrun_command(name=%r, run='true')\ncombine(name='t', deps=[%r, %r])\n" % (a, b, ":" + a, ":" + b)))
        cases.append(mk_case(None, True, "combine dependency names differing only in case across packages %s/%s" % (a, b), extra_files={"lib/COND": HELPERS["lib"] + "run_command(name=%r, run='true')\n" % b},
                             raw_cond=HELPERS[""] + "run_command(name=%r, run='true')\ncombine(name='t', deps=[%r, %r])\n" % (a, ":" + a, "//lib:" + b)))
        cases.append(mk_case(None, True, "task names of one file differing only in case %s/%s" % (a, b), raw_cond=HELPERS[""] + "run_command(name=%r, run='true')\nrun_command(name=%r, run='true')\ngroup(name='t', deps=[%r, %r])\n" % (a, b, ":" + a, ":" + b)))
    cases.append(mk_case(None, True, "task named like the target in another case", raw_cond=HELPERS[""] + "run_command(name='T', run='true')\nrun_command(name='t', run='true', deps=[':T'])\n"))
    cases.append(mk_case("group(name='t', deps=[':x', '//lib:x'])\n", True, "group may have deps with equal names", extra_files={"lib/COND": HELPERS["lib"] + "run_command(name='x', run='true')\n"},
                         raw_cond=HELPERS[""] + "run_command(name='x', run='true')\ngroup(name='t', deps=[':x', '//lib:x'])\n"))
    # option keys / many options
    cases.append(mk_case("run_experiment(name='t', run='true', options={'a-b': 1, 'c_d': 'x', '': 2})\n", True, "option keys are arbitrary strings"))
    cases.append(mk_case("run_experiment(name='t', run='true', args=['', ' ', 'a b'])\n", True, "string args with spaces"))
    # python failures, in COND and in an included file
    bad = {"raise": "raise ValueError('boom')\n", "zerodiv": "x = 1/0\n", "nameerror": "undefined_function(name='q')\n", "syntax": "run_command(name='t', run='true'\n", "syntax2": "def :\n",
           "import": "import module_that_does_not_exist_xyz\n", "recursion": "def f():\n  return f()\nf()\n", "attr": "(5).nope\n", "assert": "assert False, 'no'\n", "type": "len(5)\n",
           "unicode": "x = '\\ud800'.encode('utf-8')\n", "keyerr": "{}['k']\n", "stopiter": "next(iter([]))\n", "oserr": "open('/nonexistent/file/xyz')\n", "genexit": "raise GeneratorExit()\n" if False else "raise LookupError()\n",
           "indent": "  x = 1\n y = 2\n", "tabs": "if True:\n\tx=1\n        y=2\n", "strexc": "class E(Exception):\n  def __str__(self):\n    return 'custom'\nraise E()\n"}
    # error texts full of formatting metacharacters (str.format fields, %-conversions)
    bad.update({"msg-braces": "S = {'threads': 4}\nraise ValueError('incomplete settings: {}'.format(S))\n", "msg-field": "x = int('{high}')\n", "msg-percent": "raise RuntimeError('100%s done %(x)s %d {0} {} {name!r}')\n",
                "keyerr-braces": "{}['{k}']\n", "msg-newlines": "raise ValueError('line one\\nline two {x}\\n')\n", "msg-nonascii": "raise ValueError('caf\u00e9 \u4e2d {\u00e9}')\n"})
    ok_t = "run_command(name='t', run='true')\n"
    for k, code in bad.items():
        cases.append(mk_case(None, False, "python failure in COND: " + k, raw_cond=HELPERS[""] + ok_t + code))
        cases.append(mk_case(None, False, "python failure before tasks: " + k, raw_cond=code + HELPERS[""] + ok_t))
        cases.append(mk_case(None, False, "python failure in included file: " + k, raw_cond="include('inc.cond')\n" + HELPERS[""] + ok_t, extra_files={"inc.cond": code}))
        cases.append(mk_case(None, False, "python failure in a dependency's COND: " + k, raw_cond=HELPERS[""] + "run_command(name='t', run='true', deps=['//lib:h2'])\n", extra_files={"lib/COND": HELPERS["lib"] + code}))
    for k, code in {"bare-assert": "assert False\n", "raise-class": "raise RuntimeError\n", "raise-noargs": "raise KeyError()\n", "raise-empty-valueerror": "raise ValueError()\n"}.items():
        cases.append(mk_case(None, False, "python failure without message in COND: " + k, raw_cond=HELPERS[""] + ok_t + code))
        cases.append(mk_case(None, False, "python failure without message in included file: " + k, raw_cond="include('inc.cond')\n" + HELPERS[""] + ok_t, extra_files={"inc.cond": code}))
        cases.append(mk_case(None, False, "python failure without message in a dependency's COND: " + k, raw_cond=HELPERS[""] + "run_command(name='t', run='true', deps=['//lib:h2'])\n", extra_files={"lib/COND": HELPERS["lib"] + code}))
    # a name defined in one COND file is not visible in another one (each file has its own scope)
    for deps in ("['//lib:u', ':h1']", "[':h1', '//lib:u']", "['//lib:u']"):
        cases.append(mk_case(None, False, "dependency's COND uses a name only the target's COND defines " + deps, raw_cond="HELPER_RUN = 'true'\n" + HELPERS[""] + "run_command(name='t', run=HELPER_RUN, deps=%s)\n" % deps,
                             extra_files={"lib/COND": HELPERS["lib"] + "run_command(name='u', run=HELPER_RUN)\n"}))
        cases.append(mk_case(None, False, "target's COND uses a name only the dependency's COND defines " + deps, raw_cond=HELPERS[""] + "run_command(name='t', run=LIB_RUN, deps=%s)\n" % deps,
                             extra_files={"lib/COND": "LIB_RUN = 'true'\n" + HELPERS["lib"] + "run_command(name='u', run=LIB_RUN)\n"}))
        cases.append(mk_case(None, False, "a function defined by an included file of ANOTHER COND file " + deps, raw_cond="include('inc.cond')\n" + HELPERS[""] + "run_command(name='t', run=RUN, deps=%s)\n" % deps,
                             extra_files={"inc.cond": "RUN = 'true'\n", "lib/COND": HELPERS["lib"] + "run_command(name='u', run=RUN)\n"}))
    cases.append(mk_case(None, False, "non-UTF-8 COND", raw_cond=b"\xff\xfe\x00run_command(name='t', run='true')\n"))
    cases.append(mk_case(None, False, "NUL byte in COND", raw_cond=b"run_command(name='t', run='true')\n\x00\n"))
    cases.append(mk_case(None, False, "non-UTF-8 include", raw_cond="include('inc.cond')\n" + HELPERS[""] + ok_t, extra_files={"inc.cond": b"X = '\xff'\n"}))
    cases.append(mk_case(None, False, "COND is a directory", raw_cond=HELPERS[""] + "run_command(name='t', run='true', deps=['//dirpkg:x'])\n", extra_files={"dirpkg/COND/keep": "x"}))
    # malformed names / identifiers made of formatting metacharacters: the diagnostic has to quote them
    for nm in ("{0}", "{}", "%s", "%(x)s", "{", "}", "{name}", "a{b}c", "100%"):
        cases.append(mk_case("run_command(name=%r, run='true')\n" % nm, False, "name made of formatting metacharacters %r" % nm))
        cases.append(mk_case("run_command(name='t', run='true', deps=[%r])\n" % (":" + nm), False, "dependency made of formatting metacharacters %r" % nm))
        cases.append(mk_case("run_command(name='t', run='true', deps=[%r])\n" % ("//" + nm + ":x"), False, "dependency path made of formatting metacharacters %r" % nm))
        cases.append(mk_case(None, False, "include() argument made of formatting metacharacters %r" % nm, raw_cond="include(%r)\n" % (nm + ".cond") + HELPERS[""] + ok_t))
        cases.append(mk_case("run_experiment(name='t', run='true', options={%r: [1]})\n" % nm, False, "bad option value under a key made of formatting metacharacters %r" % nm))
    # standard-library imports, including modules Conductor itself never loads
    for mod, expr in (("colorsys", "colorsys.rgb_to_hsv(0, 0, 0)"), ("fractions", "fractions.Fraction(1, 2)"), ("json", "json.dumps([1])"), ("os.path", "os.path.join('a', 'b')"),
                      ("wave", "wave.__name__"), ("sndhdr" if False else "bisect", "bisect.bisect([1, 2], 1)"), ("itertools", "list(itertools.product([1], [2]))")):
        cases.append(mk_case(None, True, "import of a standard-library module in COND: " + mod, raw_cond="import %s\nV = %s\n" % (mod, expr) + HELPERS[""] + ok_t))
        cases.append(mk_case(None, True, "import of a standard-library module in an included file: " + mod, raw_cond="include('inc.cond')\n" + HELPERS[""] + ok_t, extra_files={"inc.cond": "import %s\nV = %s\n" % (mod, expr)}))
        cases.append(mk_case(None, True, "from-import of a standard-library module in a dependency's COND: " + mod, raw_cond=HELPERS[""] + "run_command(name='t', run='true', deps=['//lib:h2'])\n",
                             extra_files={"lib/COND": "from %s import *\n" % mod + HELPERS["lib"]}))
    cases.append(mk_case(None, True, "python constructs are allowed", raw_cond=HELPERS[""] + "for i in range(2):\n  run_command(name='q%d' % i, run='true')\nrun_command(name='t', run='true', deps=[':q0', ':q1'])\n"))
    # include matrix
    inc_ok = "THREADS = [1, 2]\nRUN = 'true'\n"
    use = "run_experiment(name='t', run=RUN, args=THREADS)\n"
    cases.append(mk_case(None, True, "include relative", raw_cond="include('inc.cond')\n" + HELPERS[""] + use, extra_files={"inc.cond": inc_ok}))
    cases.append(mk_case(None, True, "include project-relative", raw_cond="include('//cfg/inc.cond')\n" + HELPERS[""] + use, extra_files={"cfg/inc.cond": inc_ok}))
    cases.append(mk_case(None, True, "include from sub-package, relative up", raw_cond=HELPERS[""] + "run_command(name='t', run='true', deps=['//lib:u'])\n",
                         extra_files={"lib/COND": HELPERS["lib"] + "include('../cfg/inc.cond')\nrun_command(name='u', run=RUN)\n", "cfg/inc.cond": inc_ok}))
    cases.append(mk_case(None, True, "same file included by two COND files", raw_cond="include('//cfg/inc.cond')\n" + HELPERS[""] + "run_command(name='t', run=RUN, deps=['//lib:u'])\n",
                         extra_files={"lib/COND": HELPERS["lib"] + "include('//cfg/inc.cond')\nrun_command(name='u', run=RUN)\n", "cfg/inc.cond": inc_ok}))
    for order in (["//lib:u", ":h1"], [":h1", "//lib:u"], ["//lib:u"]):
        dl = "[%s]" % ", ".join(repr(x) for x in order)
        top = "include('defs.cond')\n" + HELPERS[""] + "run_command(name='t', run=RUN, deps=%s)\n" % dl
        libc = HELPERS["lib"] + "include('defs.cond')\nrun_command(name='u', run=RUN)\n"
        cases.append(mk_case(None, True, "same include() argument in two directories, both fine %s" % dl, raw_cond=top, extra_files={"lib/COND": libc, "defs.cond": inc_ok, "lib/defs.cond": "RUN = 'true'\n"}))
        cases.append(mk_case(None, False, "same include() argument: the dependency's file is missing %s" % dl, raw_cond=top, extra_files={"lib/COND": libc, "defs.cond": inc_ok}))
        cases.append(mk_case(None, False, "same include() argument: the dependency's file defines a task %s" % dl, raw_cond=top, extra_files={"lib/COND": libc, "defs.cond": inc_ok, "lib/defs.cond": "RUN = 'true'\nrun_command(name='z', run='true')\n"}))
        cases.append(mk_case(None, False, "same include() argument: the dependency's file raises %s" % dl, raw_cond=top, extra_files={"lib/COND": libc, "defs.cond": inc_ok, "lib/defs.cond": "RUN = 1/0\n"}))
        cases.append(mk_case(None, False, "same include() argument: the target's file is missing %s" % dl, raw_cond=top, extra_files={"lib/COND": libc, "lib/defs.cond": inc_ok}))
    # an included file is evaluated for each COND file that includes it: what one COND file does to the objects it got
    # (in place) must not be visible in another one
    shared = "BASE_ARGS = ['base']\nBASE_OPTIONS = {'threads': 1}\n"
    spoil = {"list gets a non-primitive": "BASE_ARGS.append({'only': 'for-a'})\n", "dict gets a non-primitive": "BASE_OPTIONS['mode'] = ['a']\n", "list emptied and refilled": "del BASE_ARGS[:]\nBASE_ARGS.append(None)\n"}
    for what, stmt in spoil.items():
        for order in (["//a:u", "//lib:u"], ["//lib:u", "//a:u"]):
            for inc in ("//cfg/defaults.cond", "../cfg/defaults.cond"):
                cases.append(mk_case(None, True, "in-place change of an included object in another COND file (%s) %s %s" % (what, order, inc),
                                     raw_cond=HELPERS[""] + "run_command(name='t', run='true', deps=%r)\n" % order,
                                     extra_files={"cfg/defaults.cond": shared, "a/COND": "include(%r)\n" % inc + stmt + "run_experiment(name='u', run='true', args=['x'])\n",
                                                  "lib/COND": HELPERS["lib"] + "include(%r)\n" % inc + "run_experiment(name='u', run='true', args=BASE_ARGS, options=BASE_OPTIONS)\n"}))
    # included files are ordinary Python: functions may use the file's own constants, imports and other functions
    inc_fn = {"function uses a sibling constant": "BASE = 2\ndef scaled(x):\n    return BASE * x\nTHREADS = [scaled(1), scaled(2)]\nRUN = 'true'\n",
              "function uses an import of the file": "import math\ndef up(x):\n    return math.ceil(x)\nTHREADS = [up(1.5)]\nRUN = 'true'\n",
              "function calls another function of the file": "def one():\n    return 1\ndef two():\n    return one() + one()\nTHREADS = [two()]\nRUN = 'true'\n",
              "comprehension over a sibling constant": "SIZES = [1, 2, 3]\nFACTOR = 10\nTHREADS = [s * FACTOR for s in SIZES]\nRUN = 'true'\n",
              "function defined in the file, called from COND": "BASE = 3\ndef make(n):\n    return [BASE] * n\nTHREADS = [1]\nRUN = 'true'\n"}
    for what, body in inc_fn.items():
        tail = "run_experiment(name='t', run=RUN, args=THREADS)\n" if "called from COND" not in what else "run_experiment(name='t', run=RUN, args=make(2))\n"
        cases.append(mk_case(None, True, "included file: " + what, raw_cond="include('inc.cond')\n" + HELPERS[""] + tail, extra_files={"inc.cond": body}))
        cases.append(mk_case(None, True, "included file (project-relative, from a dependency's COND): " + what, raw_cond=HELPERS[""] + "run_command(name='t', run='true', deps=['//lib:u'])\n",
                             extra_files={"cfg/inc.cond": body, "lib/COND": HELPERS["lib"] + "include('//cfg/inc.cond')\n" + tail.replace("name='t'", "name='u'")}))
    cases.append(mk_case(None, True, "include(path=...) with the documented parameter name", raw_cond="include(path='inc.cond')\n" + HELPERS[""] + use, extra_files={"inc.cond": inc_ok}))
    cases.append(mk_case(None, True, "include(path=...) project-relative, documented parameter name", raw_cond="include(path='//cfg/inc.cond')\n" + HELPERS[""] + use, extra_files={"cfg/inc.cond": inc_ok}))
    cases.append(mk_case(None, True, "include twice", raw_cond="include('inc.cond')\ninclude('inc.cond')\n" + HELPERS[""] + use, extra_files={"inc.cond": inc_ok}))
    cases.append(mk_case(None, False, "include missing file", raw_cond="include('nope.cond')\n" + HELPERS[""] + ok_t))
    cases.append(mk_case(None, False, "include missing project-relative", raw_cond="include('//nope/x.cond')\n" + HELPERS[""] + ok_t))
    cases.append(mk_case(None, False, "include wrong extension", raw_cond="include('inc.py')\n" + HELPERS[""] + ok_t, extra_files={"inc.py": inc_ok}))
    cases.append(mk_case(None, False, "include no extension", raw_cond="include('inc')\n" + HELPERS[""] + ok_t, extra_files={"inc": inc_ok}))
    cases.append(mk_case(None, False, "include outside project", raw_cond="include('../outside.cond')\n" + HELPERS[""] + ok_t, extra_files={"../outside.cond": inc_ok}))
    cases.append(mk_case(None, False, "include outside project (absolute-looking)", raw_cond="include('//../outside.cond')\n" + HELPERS[""] + ok_t, extra_files={"../outside.cond": inc_ok}))
    cases.append(mk_case(None, False, "included file defines a task", raw_cond="include('inc.cond')\n" + HELPERS[""] + ok_t, extra_files={"inc.cond": "run_command(name='z', run='true')\n"}))
    cases.append(mk_case(None, False, "included file includes", raw_cond="include('inc.cond')\n" + HELPERS[""] + ok_t, extra_files={"inc.cond": "include('inc2.cond')\n", "inc2.cond": inc_ok}))
    grp = "run_experiment_group(name='swept', run='true', experiments=[ExperimentInstance(name='swept-1')])\n"
    cases.append(mk_case(None, False, "included file defines tasks through run_experiment_group()", raw_cond="include('inc.cond')\n" + HELPERS[""] + ok_t, extra_files={"inc.cond": grp}))
    cases.append(mk_case(None, False, "included file defines tasks through run_experiment_group() [target is that task]", raw_cond="include('inc.cond')\n" + HELPERS[""] + ok_t, extra_files={"inc.cond": grp}, target="//:swept"))
    cases.append(mk_case(None, False, "included file uses combine()", raw_cond="include('inc.cond')\n" + HELPERS[""] + ok_t, extra_files={"inc.cond": "combine(name='z', deps=[])\n"}))
    cases.append(mk_case(None, True, "group in the COND file itself", raw_cond=HELPERS[""] + grp.replace("swept", "t").replace("t-1", "t-one")))
    # outside the project, but in a sibling directory whose name starts with the project directory's name
    cases.append(mk_case(None, False, "include from a sibling directory with a common name prefix", raw_cond="include('../proj-shared/defs.cond')\n" + HELPERS[""] + use, extra_files={"../proj-shared/defs.cond": inc_ok}))
    cases.append(mk_case(None, False, "include from a sibling directory with a common name prefix (2)", raw_cond="include('//../project/defs.cond')\n" + HELPERS[""] + use, extra_files={"../project/defs.cond": inc_ok}))
    cases.append(mk_case(None, False, "include through a symlink that leaves the project", raw_cond="include('link.cond')\n" + HELPERS[""] + use, extra_files={"../elsewhere/defs.cond": inc_ok, "@symlink:link.cond": "../elsewhere/defs.cond"}))
    cases.append(mk_case(None, False, "include(non-string)", raw_cond="include(5)\n" + HELPERS[""] + ok_t))
    cases.append(mk_case(None, False, "include of a directory", raw_cond="include('d.cond')\n" + HELPERS[""] + ok_t, extra_files={"d.cond/keep": "x"}))
    return cases


def random_cases(rng, n):
    cases = []
    for _ in range(n):
        ctor = rng.choice(list(SCHEMA))
        src, val = base_kwargs(ctor)
        nm = rng.choice(["t", "t", "t", "x-1", "A_b"])
        src["name"], val["name"] = repr(nm), nm
        for p in SCHEMA[ctor]:
            if p in ("name",):
                continue
            r = rng.random()
            if r < 0.45:
                continue
            if r < 0.8:
                good = {"run": [("'true --a'", "true --a")], "parallelizable": [("True", True), ("False", False)],
                        "args": [("[]", []), ("[1, 'a']", [1, "a"]), ("[True, 2.5]", [True, 2.5])], "options": [("{}", {}), ("{'k': 1}", {"k": 1}), ("{'a': 'b', 'c': False}", {"a": "b", "c": False})],
                        "deps": [("[]", []), ("[':h1']", [":h1"]), ("['//lib:h2', ':h1']", ["//lib:h2", ":h1"]), ("['//lib/deep:h3']", ["//lib/deep:h3"])]}[p]
                vs, vv = rng.choice(good)
            else:
                vs, vv = rng.choice(VALUES)
            src[p], val[p] = vs, vv
        if rng.random() < 0.08:
            src["extra"], val["extra"] = "1", 1
        keys = list(src)
        rng.shuffle(keys)
        e = ref_valid(ctor, val)
        if e is None:
            continue
        cases.append(mk_case(call_src(ctor, {k: src[k] for k in keys}), e, "random %s" % ctor, target="//:" + nm))
    return cases


def write_files(root, case):
    os.makedirs(root, exist_ok=True)
    open(os.path.join(root, "cond_config.toml"), "w").write("disable_git = true\n")
    for rel, content in case["files"].items():
        if rel.startswith("@symlink:"):
            p = os.path.normpath(os.path.join(root, rel[len("@symlink:"):]))
            os.makedirs(os.path.dirname(p), exist_ok=True)
            os.symlink(content, p)
            continue
        p = os.path.normpath(os.path.join(root, rel))
        os.makedirs(os.path.dirname(p), exist_ok=True)
        if isinstance(content, dict):
            open(p, "wb").write(base64.b64decode(content["b64"]))
        else:
            open(p, "w").write(content)


def eval_cases(arg):
    cases, = arg
    common.import_repo()
    from conductor.parsing.task_index import TaskIndex
    from conductor.task_identifier import TaskIdentifier
    from conductor.errors import ConductorError
    out = {"sig": None, "nontrivial": True, "reach": {}, "violations": [], "inconclusive": [], "sets": {"case_sigs": []}}
    R = out["reach"]
    with common.Scratch("cv15") as sc:
        for i, case in enumerate(cases):
            root = os.path.join(sc.root, "c%d" % i, "proj")
            write_files(root, case)
            out["sets"]["case_sigs"].append(common.short_hash(case["files"]))
            idx = TaskIndex(pathlib.Path(root))
            got, exc = "accept", None
            try:
                with common.cpu_budget(3):
                    idx.load_transitive_closure(TaskIdentifier.from_str(case["target"]))
            except ConductorError as ex:
                got, exc = "reject", ex
            except common.CpuBudgetExceeded as ex:
                got, exc = "crash", ex
                out["violations"].append({"key": "C15:loader-does-not-terminate", "msg": "%s: no result after 3 s of CPU time\n%s" % (case["why"], case["files"].get("COND")), "witness": {"engine": "E5", "case": case}})
                break
            except BaseException as ex:  # noqa
                got, exc = "crash", ex
            R["c15_loads"] = R.get("c15_loads", 0) + 1
            R["c15_" + got] = R.get("c15_" + got, 0) + 1
            W = {"engine": "E5", "case": case, "got": got, "exception": repr(exc), "message": exc.printable_message() if got == "reject" else None}
            if got == "crash":
                out["violations"].append({"key": "C15:non-conductor-exception-escapes-loader", "msg": "%s: loader raised %r instead of a ConductorError\n%s" % (case["why"], exc, case["files"].get("COND")), "witness": W})
            elif case["expect"] and got == "reject":
                out["violations"].append({"key": "C15:well-formed-definition-rejected", "msg": "%s: rejected with %s\n%s" % (case["why"], exc.printable_message(), case["files"].get("COND")), "witness": W})
            elif not case["expect"] and got == "accept":
                out["violations"].append({"key": "C15:malformed-definition-accepted", "msg": "%s: accepted\n%s" % (case["why"], case["files"].get("COND")), "witness": W})
            elif got == "reject" and exc.file_context is None:
                out["violations"].append({"key": "C15:rejection-without-file-context", "msg": "%s: %s carries no file context" % (case["why"], type(exc).__name__), "witness": W})
    out["sig"] = common.short_hash(out["sets"]["case_sigs"])
    out["violations"] = out["violations"][:4]
    out["sample"] = {"why": cases[0]["why"], "COND": cases[0]["files"].get("COND"), "expect": cases[0]["expect"]}
    return out


def cli_cases(arg):
    cases, = arg
    cli.warm()
    out = {"sig": "cli", "nontrivial": True, "reach": {}, "violations": [], "inconclusive": [], "sets": {}}
    R = out["reach"]
    with common.Scratch("cv15c") as sc:
        for i, case in enumerate(cases):
            root = os.path.join(sc.root, "c%d" % i, "proj")
            sentinel = os.path.join(sc.root, "ran%d" % i)
            c2 = json.loads(json.dumps(case))
            for k, v in c2["files"].items():
                if isinstance(v, str):
                    c2["files"][k] = v.replace("run='true'", "run='echo x >> %s'" % sentinel).replace("RUN = 'true'", "RUN = 'echo x >> %s'" % sentinel)
            write_files(root, c2)
            for check in ((True, False) if i % 2 == 0 else (True,)):
                argv = ["run", case["target"]] + (["--check"] if check else [])
                r = cli.run_cli(argv, root, sc.root, timeout=60, mode="exec" if i % 9 == 0 and check else "fast")
                R["c15_cli_runs"] = R.get("c15_cli_runs", 0) + 1
                W = {"engine": "cli", "case": case, "argv": argv, "result": cli.brief(r, 800)}
                made = [os.path.join(dp, d) for dp, dns, fns in os.walk(os.path.join(root, "cond-out")) for d in dns if ".task" in d]
                ran = os.path.exists(sentinel)
                if "Traceback" in r.err:
                    out["violations"].append({"key": "C15:cli-traceback", "msg": "%s: cond %s printed a traceback\n%s" % (case["why"], " ".join(argv), r.err[-500:]), "witness": W})
                    continue
                if case["expect"]:
                    if r.code != 0 and not check and "terminated with a non-zero error code" in r.err and "Traceback" not in r.err:
                        # the definition was accepted and the task was started; that its (generated) command line fails
                        # says nothing about the definition
                        R["c15_cli_accepted_but_command_failed"] = R.get("c15_cli_accepted_but_command_failed", 0) + 1
                    elif r.code != 0:
                        out["violations"].append({"key": "C15:well-formed-definition-rejected", "msg": "%s: cond %s exit %s: %s" % (case["why"], " ".join(argv), r.code, r.err[-300:]), "witness": W})
                    elif check:
                        R["c15_check_runs_nothing"] = R.get("c15_check_runs_nothing", 0) + 1
                        if ran or made:
                            out["violations"].append({"key": "C15:check-executed-or-created-output", "msg": "%s: --check ran a task or created %s" % (case["why"], made), "witness": W})
                    if not check and os.path.exists(sentinel):
                        os.unlink(sentinel)
                else:
                    R["c15_cli_rejections"] = R.get("c15_cli_rejections", 0) + 1
                    if r.code == 0:
                        out["violations"].append({"key": "C15:malformed-definition-accepted", "msg": "%s: cond %s exited 0" % (case["why"], " ".join(argv)), "witness": W})
                    elif not r.err.startswith("ERROR:") and "\nERROR:" not in r.err:
                        out["violations"].append({"key": "C15:rejection-without-ERROR-diagnostic", "msg": "%s: stderr %r" % (case["why"], r.err[-300:]), "witness": W})
                    elif "file: " not in r.err:
                        out["violations"].append({"key": "C15:diagnostic-does-not-name-the-file", "msg": "%s: stderr %r" % (case["why"], r.err[-300:]), "witness": W})
                    if ran or made:
                        out["violations"].append({"key": "C15:task-executed-despite-rejection", "msg": "%s: a task ran / output %s was created although the definition was rejected" % (case["why"], made), "witness": W})
    out["violations"] = out["violations"][:4]
    out["sample"] = {"cli_case": cases[0]["why"]}
    return out


def chunks(lst, n):
    return [lst[i:i + n] for i in range(0, len(lst), n)]


def main(tier, n=None):
    rep = common.Report(PROP, tier, "exploration", RULE)
    rep.assumptions = ["excluded (stated): SystemExit/KeyboardInterrupt raised by the COND file, the undocumented environment() constructor, values whose str() raises",
                       "a well-formed dependency on an undefined task is C14's business and is not generated here", "bool is a primitive; an int is not a bool; tuples are not lists"]
    rng = common.rng_for("c15", common.base_seed())
    sys_cases = systematic_cases()
    rnd = random_cases(rng, 3000 if tier == "quick" else 100000)
    allc = sys_cases + rnd
    if n:
        allc = allc[:n]
    cli.warm()
    res = common.parallel_map(eval_cases, [(c,) for c in chunks(allc, 60)], timeout=900)
    rep.merge_pool(res)
    # the diagnostics (ERROR line naming the file, no traceback) are produced by the CLI layer only: every systematic
    # case goes through the real command line, plus a sample of the random ones
    pick = list(sys_cases) + rnd[:60 if tier == "quick" else 2000]
    if n:
        pick = pick[:n]
    pick = [c for c in pick if all(isinstance(v, str) for v in c["files"].values()) or True]
    res2 = common.parallel_map(cli_cases, [(c,) for c in chunks(pick, 12)], timeout=900)
    rep.merge_pool(res2)
    rep.evaluations = rep.reach.get("c15_loads", 0) + rep.reach.get("c15_cli_runs", 0)
    rep.distinct = set(rep.extra.get("case_sigs", ()))
    rep.extra["systematic_cases"] = len(sys_cases)
    return rep.finish(required_reach=["c15_loads", "c15_accept", "c15_reject", "c15_cli_runs", "c15_cli_rejections", "c15_check_runs_nothing"])


def replay(path):
    with open(path) as f:
        v = json.load(f)
    w = v["witness"]
    out = cli_cases(([w["case"]],)) if w.get("engine") == "cli" else eval_cases(([w["case"]],))
    for x in out["violations"]:
        print(x["msg"])
        print("VIOLATION property=%s replay=%s" % (PROP, path))
    return 1 if out["violations"] else 0
