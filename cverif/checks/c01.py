"""C01 - dependencies finish successfully before a task starts (history oracle over E2 runs)."""
from . import _sched_common as S
from .. import sched

PROP = "C01"
RULE = ("generated task DAGs (structured shared-dependency families, all DAGs on <=4 nodes with every dep-list order, random <=8/14 nodes; kinds run_command/run_experiment/group/combine; "
        "parallelizable flags; --jobs 1..5; 1-3 invocations so later ones see cached experiments) x exit-order strategies of the interposed kernel; "
        "a case is non-trivial when >=2 tasks are executed; distinct = hash(graph shape, flags, faults, observed spawn/exit/reap interleaving)")


def main(tier, n=None):
    plan = [("deps", 900, 40000, None, 8), ("wide", 300, 10000, None, 8), ("deps", 150, 6000, list(sched.schedsim.LINE_STRATEGIES), 7)]
    rep, code = S.run(PROP, tier, "exploration", RULE, plan, ["c01_dep_pairs", "c01_combine_starts", "c01_e1_dep_pairs"], n, e1=("deps", 60, 1500, 7))
    return code


def replay(path):
    return S.replay(PROP, path)
