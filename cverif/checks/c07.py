"""C07 - task environment contract and a consistent dependency snapshot (E1: real processes; the
probe inside every task reports argv/cwd/env and conductor.lib results)."""
import json
import os
import re

from .. import common, cli, gen, realrun

PROP = "C07"
RULE = ("random task DAGs (2-8 tasks, kinds run_command/run_experiment/group/combine, packages nested 0-3 deep, args/options over str/int/float incl. 1e-07/inf/nan/bool) x histories of 1-3 real "
        "`cond run` invocations (sub-targets first => cached experiments; --again; -j) with real task processes; non-trivial = >=2 task processes started; distinct = hash(graph, args, history)")

ARGV = [1, 0, -7, 2.5, 1e-07, float("inf"), float("nan"), True, False, "abc", "a-b_c", "x.y", "7", "UPPER", 10 ** 12]
KEYS = ["threads", "mem", "k", "z-z", "a_b", "K"]


def gen_case(rng):
    n = rng.randint(2, 8)
    tasks = gen.rand_dag(rng, n, p_edge=rng.choice([0.3, 0.5, 0.8]), pkgs=rng.choice([[""], ["", "a"], ["a/b", "a", ""], list(gen.PKGS)]), par_p=rng.choice([0, 0.5, 1]),
                         kinds={"run_command": 3, "run_experiment": 4, "group": 1, "combine": 1})
    if rng.random() < 0.35:
        tasks = share_names(rng, tasks)
    same_name = rng.random() < 0.1
    if same_name:
        tasks = same_name_family(rng)
    scripts = {}
    for t in tasks:
        if t["kind"] in gen.PROC_KINDS:
            t["args"] = [rng.choice(ARGV) for _ in range(rng.choice([0, 0, 1, 2, 4]))]
            ks = rng.sample(KEYS, rng.choice([0, 0, 1, 2, 3]))
            t["options"] = {k: rng.choice(ARGV) for k in ks}
            steps = [["file", "result.txt", realrun.b64(t["id"].encode())]]
            if rng.random() < 0.6:
                steps.append(["lib"])
            scripts[t["id"]] = {"steps": steps}
    if rng.random() < 0.15:
        # type twins: argument lists / option values that compare (and hash) equal across tasks of one invocation but
        # differ in type, so they render differently: [1, 0] / [True, False] / [1.0, 0.0]
        base = [rng.choice([0, 1]) for _ in range(rng.randint(1, 3))]
        conv = {"int": int, "bool": bool, "float": float}
        for t in tasks:
            if t["kind"] in gen.PROC_KINDS:
                c = conv[rng.choice(sorted(conv))]
                t["args"] = [c(v) for v in base]
                c2 = conv[rng.choice(sorted(conv))]
                t["options"] = {"k": c2(base[0])} if rng.random() < 0.7 else {}
    ids = [t["id"] for t in tasks]
    hist = []
    for k in range(rng.choice([1, 2, 2, 3])):
        hist.append({"target": tasks[-1]["id"] if k == 0 or rng.random() < 0.5 else rng.choice(ids), "jobs": rng.choice([None, None, 2, 4]), "again": k > 0 and rng.random() < 0.35})
    if len(hist) > 1:
        hist[0]["target"] = rng.choice(ids)
        hist[-1]["target"] = tasks[-1]["id"]
    if same_name:
        # one of the namesakes gets a version first; then everything is needed at once
        hist = [{"target": rng.choice(ids[:-1]), "jobs": None, "again": False}, {"target": ids[-1], "jobs": rng.choice([None, 3]), "again": False}]
    outer_env = None
    if rng.random() < 0.3:
        # as if `cond run` were started from inside another Conductor task
        outer_env = {"COND_OUT": "/outer/cond-out/x.task", "COND_DEPS": "/outer/a:/outer/b", "COND_NAME": "outer-task"}
        if rng.random() < 0.5:
            outer_env["COND_SLOT"] = "7"
    blocker = None
    rc = [t for t in tasks if t["kind"] == "run_command"]
    if rc and rng.random() < 0.15:
        blocker = {"task": rng.choice(rc)["id"], "kind": rng.choice(["file", "dangling-symlink"])}
    hostile = realrun.hostile_choice(rng)
    if rng.random() < 0.06:
        hostile["colon_root"] = True
    return {"tasks": gen.dump(tasks), "scripts": scripts, "history": hist, "outer_env": outer_env, "blocker": blocker, "hostile": hostile}


def same_name_family(rng):
    """experiments that share one NAME in different packages (distinct identifiers), all direct dependencies of
    one task; the history gives one of them a version before the others exist"""
    pkgs = rng.sample(["", "a", "a/b", "c-d"], rng.choice([2, 3]))
    nm = rng.choice(["e", "t0", "same-name"])
    tasks = [gen.mk_task(p, nm, "run_experiment", [], par=rng.random() < 0.5) for p in pkgs]
    deps = [t["id"] for t in tasks]
    rng.shuffle(deps)
    top_pkg = rng.choice([p for p in ["", "a", "top"] if (p, "top") not in [(t["pkg"], t["name"]) for t in tasks]])
    tasks.append(gen.mk_task(top_pkg, "top", rng.choice(["run_command", "run_experiment"]), deps))
    return tasks


def share_names(rng, tasks):
    """the same task NAME in several packages (identifiers stay unique)"""
    ren, used = {}, set()
    pool = ["t%d" % j for j in range(max(2, len(tasks) // 2))]
    for t in tasks:
        for _ in range(10):
            nm = rng.choice(pool)
            if (t["pkg"], nm) not in used:
                break
        else:
            nm = "u-" + t["name"]
        used.add((t["pkg"], nm))
        ren[t["id"]] = gen.tid(t["pkg"], nm)
    out = []
    for t in tasks:
        deps = [ren[d] for d in t["deps"]]
        if t["kind"] == "combine":
            seen, keep = set(), []
            for d in deps:
                n0 = gen.split_tid(d)[1]
                if n0 not in seen:
                    seen.add(n0)
                    keep.append(d)
            deps = keep
        out.append(gen.mk_task(t["pkg"], gen.split_tid(ren[t["id"]])[1], t["kind"], deps, par=t["par"], rel_ok=rng.random() < 0.7))
    return out


def render(v):
    if isinstance(v, bool):
        return "true" if v else "false"
    return str(v)


def eval_case(case):
    cli.warm()
    out = {"sig": common.short_hash([[(t["kind"], t["pkg"], t["deps"], t["args"], sorted(t["options"].items())) for t in case["tasks"]], case["history"]]),
           "nontrivial": False, "reach": {}, "violations": [], "inconclusive": [], "sets": {}}
    R = out["reach"]

    def bump(k, n=1):
        R[k] = R.get(k, 0) + n

    with common.Scratch("cv07") as sc:
        tasks = [gen.Task(t) for t in case["tasks"]]
        pr = realrun.Project(sc.root, tasks, case["scripts"], hostile=case.get("hostile"))
        tb = pr.tb
        rootreal = os.path.realpath(pr.root)
        blocked = None
        if case.get("blocker"):
            # something that is not a directory sits where a run_command's output directory belongs
            bp = pr.out_dir(case["blocker"]["task"])
            os.makedirs(os.path.dirname(bp), exist_ok=True)
            if case["blocker"]["kind"] == "file":
                open(bp, "w").write("not a directory")
            else:
                os.symlink("/nonexistent/target", bp)
            blocked = case["blocker"]["task"]
        for hi, inv in enumerate(case["history"]):
            exps = [t["id"] for t in tasks if t["kind"] == "run_experiment"]
            where_before = {x: pr.where(x) for x in exps}
            argv = ["run", inv["target"]] + (["-j", str(inv["jobs"])] if inv["jobs"] else []) + (["--again"] if inv["again"] else [])
            pr.events(new_only=True)
            r = pr.cond(argv, run_id=hi, timeout=120, env_extra=case.get("outer_env"))
            evs = pr.events(new_only=True)
            W = {"engine": "E1", "case": case, "invocation": hi, "argv": argv, "result": cli.brief(r), "events": evs[:60], "where_before": where_before}
            if case.get("outer_env"):
                bump("c07_runs_with_inherited_COND_vars")
            if blocked:
                bump("c07_blocked_output_path_runs")
                bs = [e for e in evs if e["kind"] == "start" and e["task"] == blocked]
                if bs and not bs[0].get("out_isdir"):
                    out["violations"].append({"key": "C07:task-started-without-output-directory", "msg": "%s was started although its output path is not a directory (COND_OUT=%s)" % (blocked, bs[0]["env"].get("COND_OUT")), "witness": W})
                    break
            if r["timed_out"]:
                out["inconclusive"].append({"why": "cond run timed out (watchdog)", "detail": cli.brief(r)})
                break
            if r.code != 0 and not blocked:
                out["inconclusive"].append({"why": "cond run failed in a workload where every task succeeds", "detail": cli.brief(r)})
                break
            starts = {}
            for e in evs:
                if e["kind"] == "start":
                    starts.setdefault(e["task"], []).append(e)
            libs = {e["task"]: e["res"] for e in evs if e["kind"] == "lib"}
            if len(starts) >= 2:
                out["nontrivial"] = True
            seen_for_dep = {}
            for tid, sl in starts.items():
                t = tb[tid]
                e = sl[0]
                bump("c07_task_starts")
                # cwd
                want_cwd = os.path.realpath(os.path.join(pr.root, t["pkg"]))
                if os.path.realpath(e["cwd"]) != want_cwd:
                    out["violations"].append({"key": "C07:wrong-working-directory", "msg": "%s ran in %s, its COND file is in %s" % (tid, e["cwd"], want_cwd), "witness": W})
                    continue
                # argv
                want_argv = [render(a) for a in t["args"]] + ["--%s=%s" % (k, render(v)) for k, v in t["options"].items()]
                if e["argv"] != want_argv:
                    out["violations"].append({"key": "C07:wrong-command-line", "msg": "%s received %s, declared args/options render to %s" % (tid, e["argv"], want_argv), "witness": W})
                    continue
                env = e["env"]
                if env.get("COND_NAME") != t["name"]:
                    out["violations"].append({"key": "C07:wrong-COND_NAME", "msg": "%s got COND_NAME=%r" % (tid, env.get("COND_NAME")), "witness": W})
                    continue
                co = env.get("COND_OUT", "")
                base = os.path.join(os.path.realpath(os.path.join(pr.root, "cond-out", t["pkg"])), t["name"] + ".task")
                pat = re.escape(base) + (r"\.[1-9][0-9]*" if t["kind"] == "run_experiment" else "") + r"\Z"
                lexical_ok = os.path.normpath(co).startswith(os.path.join(pr.root, "cond-out") + os.sep) or os.path.normpath(co).startswith(os.path.join(rootreal, "cond-out") + os.sep)
                if not e.get("out_isabs") or not e.get("out_isdir") or not lexical_ok or not re.match(pat, os.path.normpath(os.path.join(os.path.realpath(os.path.dirname(co)), os.path.basename(co)))):
                    out["violations"].append({"key": "C07:wrong-COND_OUT", "msg": "%s got COND_OUT=%r (isabs=%s isdir=%s), expected %s[.<version>] to exist" % (tid, co, e.get("out_isabs"), e.get("out_isdir"), base), "witness": W})
                    continue
                # COND_DEPS
                want_deps = []
                unknown_deps = []
                for d in t["deps"]:
                    dk = tb[d]["kind"]
                    if dk == "group":
                        continue
                    if dk in ("run_command", "combine"):
                        want_deps.append(os.path.join(pr.root, "cond-out", tb[d]["pkg"], tb[d]["name"] + ".task"))
                    elif d in starts:
                        want_deps.append(starts[d][0]["env"]["COND_OUT"])
                    elif where_before.get(d):
                        want_deps.append(where_before[d])
                    else:
                        unknown_deps.append(d)
                got_deps = env.get("COND_DEPS")
                colon_root = ":" in pr.root
                if colon_root and not unknown_deps:
                    # the variable itself must still be the declared directories joined by ':'; splitting it is ambiguous
                    bump("c07_deps_checks")
                    bump("c07_deps_checks_with_separator_in_project_path")
                    if got_deps is None or got_deps != ":".join(want_deps):
                        out["violations"].append({"key": "C07:wrong-COND_DEPS", "msg": "%s got COND_DEPS=%r, expected the join of %s" % (tid, got_deps, want_deps), "witness": W})
                        continue
                    if tid in libs and want_deps and "error" not in libs[tid] and libs[tid]["get_deps_paths"] != want_deps:
                        out["violations"].append({"key": "C07:separator-in-project-path-makes-COND_DEPS-ambiguous", "msg": "%s: the project path contains ':' (%s); COND_DEPS=%r names %d directories but get_deps_paths() returns %d fragments %r" % (
                            tid, pr.root, got_deps, len(want_deps), len(libs[tid]["get_deps_paths"]), libs[tid]["get_deps_paths"][:4]), "witness": W})
                    continue
                if unknown_deps and not all(e.get("deps_isdir", [])):
                    out["violations"].append({"key": "C07:COND_DEPS-names-missing-directory", "msg": "%s got COND_DEPS=%r with an entry that is not an existing directory (%s); dependency %s neither ran in this invocation nor had a version before it" % (tid, got_deps, e.get("deps_isdir"), unknown_deps), "witness": W})
                    continue
                if unknown_deps:
                    out["inconclusive"].append({"why": "dependency neither ran nor had a version", "detail": tid})
                    continue
                bump("c07_deps_checks")
                if not all(e.get("deps_isdir", [])):
                    out["violations"].append({"key": "C07:COND_DEPS-names-missing-directory", "msg": "%s got COND_DEPS=%r with an entry that is not an existing directory (%s)" % (tid, got_deps, e.get("deps_isdir")), "witness": W})
                    continue
                if got_deps is None or [os.path.normpath(p) for p in (got_deps.split(":") if got_deps else [])] != [os.path.normpath(p) for p in want_deps]:
                    out["violations"].append({"key": "C07:wrong-COND_DEPS", "msg": "%s got COND_DEPS=%r, expected %s (deps %s)" % (tid, got_deps, want_deps, t["deps"]), "witness": W})
                    continue
                for d, p in zip([d for d in t["deps"] if tb[d]["kind"] != "group"], got_deps.split(":") if got_deps else []):
                    seen_for_dep.setdefault(d, set()).add(os.path.normpath(p))
                # lib
                if tid in libs:
                    lr = libs[tid]
                    bump("c07_lib_checks")
                    if not want_deps:
                        bump("c07_lib_checks_no_deps")
                    if "error" in lr:
                        out["violations"].append({"key": "C07:lib-raised", "msg": "conductor.lib inside %s raised %s" % (tid, lr["error"]), "witness": W})
                    elif lr["get_output_path"] != co:
                        out["violations"].append({"key": "C07:lib-get_output_path-differs", "msg": "%s: get_output_path()=%r, COND_OUT=%r" % (tid, lr["get_output_path"], co), "witness": W})
                    elif lr["get_deps_paths"] != (got_deps.split(":") if got_deps else []):
                        key = "C07:lib-get_deps_paths-nonempty-for-no-deps" if not got_deps else "C07:lib-get_deps_paths-differs"
                        out["violations"].append({"key": key, "msg": "%s: get_deps_paths()=%r, COND_DEPS=%r" % (tid, lr["get_deps_paths"], got_deps), "witness": W})
                    elif lr.get("get_deps_paths_again") != lr["get_deps_paths"] or lr.get("get_output_path_again") != co:
                        out["violations"].append({"key": "C07:lib-second-call-differs", "msg": "%s: a second get_deps_paths()/get_output_path() call returned %r / %r (first call %r, COND_OUT %r)" % (tid, lr.get("get_deps_paths_again"), lr.get("get_output_path_again"), lr["get_deps_paths"], co), "witness": W})
                    elif lr["in_output_dir"] != os.path.join(co, "sub/file.txt") or lr["in_output_dir_path"] != os.path.join(co, "q.bin"):
                        out["violations"].append({"key": "C07:lib-in_output_dir-differs", "msg": "%s: in_output_dir -> %r / %r" % (tid, lr["in_output_dir"], lr["in_output_dir_path"]), "witness": W})
            for d, ps in seen_for_dep.items():
                bump("c07_snapshot_checks")
                if len(ps) > 1:
                    out["violations"].append({"key": "C07:dependents-see-different-versions", "msg": "dependents of %s were handed different directories: %s" % (d, sorted(ps)), "witness": W})
            if out["violations"]:
                break
        out["violations"] = out["violations"][:2]
        out["sample"] = {"cond": [gen.task_src(t) for t in tasks][:4], "history": case["history"], "first_events": [{k: e.get(k) for k in ("kind", "task", "argv", "cwd", "env")} for e in pr.events()[:3]]}
    return out


def main(tier, n=None):
    rep = common.Report(PROP, tier, "exploration", RULE)
    rep.assumptions = ["args/options values are shell-inert tokens, so bash word splitting is the identity and the documented textual concatenation is observable as argv",
                       "expected dependency directory of an experiment = the COND_OUT its own probe saw in this invocation, else what `cond where` printed before the invocation"]
    rng = common.rng_for("c07", common.base_seed())
    total = n or (400 if tier == "quick" else 4000)
    cases = [gen_case(rng) for _ in range(total)]
    cli.warm()
    res = common.parallel_map(eval_case, cases, timeout=600)
    rep.merge_pool(res, cases)
    return rep.finish(required_reach=["c07_task_starts", "c07_deps_checks", "c07_lib_checks", "c07_lib_checks_no_deps", "c07_snapshot_checks"])


def replay(path):
    with open(path) as f:
        v = json.load(f)
    out = eval_case(v["witness"]["case"])
    for x in out["violations"]:
        print(x["msg"])
        print("VIOLATION property=%s replay=%s" % (PROP, path))
    return 1 if out["violations"] else 0
