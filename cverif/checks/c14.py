"""C14 - dependency graphs are validated soundly before anything runs.

Workload: exhaustive digraphs (self-loops included) on 3 labelled tasks x every order of every
dependency list x every target, the same with one undefined ("ghost") dependency, all 65 536
digraphs on 4 tasks in canonical order (thorough), random larger multi-file graphs with
duplicate listings; each loaded by the real TaskIndex.load_transitive_closure and by the
explorer's whole-project validation.  Oracle: an independent colour-DFS on the generator's
graph.  A CLI sample shows what the user sees and that nothing is executed."""
import itertools
import json
import os
import pathlib

from .. import common, cli, gen

PROP = "C14"
RULE = ("digraphs over task names: exhaustive on 3 tasks (512 edge sets incl. self-loops x all dep-list permutations x 3 targets), the same space with an undefined dependency, "
        "exhaustive 4-task edge sets in canonical order (thorough), random graphs <=9 tasks over <=4 COND files with duplicate listings (':x' vs '//pkg:x'); "
        "non-trivial = graph has >=1 edge; distinct = (edge lists in order, package assignment, target)")


# ---------------------------------------------------------------- reference analysis
def analyse(deps, defined, target):
    """deps: {node: [dep nodes in order]} (canonical names); returns set of applicable error kinds."""
    app = set()
    reach = []
    seen = set()
    st = [target]
    while st:
        x = st.pop()
        if x in seen:
            continue
        seen.add(x)
        if x not in defined:
            app.add("notfound")
            continue
        reach.append(x)
        if len(set(deps[x])) != len(deps[x]):
            app.add("dup")
        st.extend(deps[x])
    # cycle among reachable defined nodes (colour DFS, recursive on tiny graphs / iterative otherwise)
    WHITE, GREY, BLACK = 0, 1, 2
    col = {x: WHITE for x in reach}
    for s in reach:
        if col[s] != WHITE:
            continue
        stack = [(s, iter(deps[s]))]
        col[s] = GREY
        while stack:
            x, it = stack[-1]
            adv = False
            for d in it:
                if d not in col:
                    continue
                if col[d] == GREY:
                    app.add("cyclic")
                elif col[d] == WHITE:
                    col[d] = GREY
                    stack.append((d, iter(deps[d])))
                    adv = True
                    break
            if not adv:
                col[x] = BLACK
                stack.pop()
    return app


def whole_project(deps, defined):
    """-> ('error', kinds) | ('roots', set)"""
    kinds = set()
    for x in defined:
        for d in deps[x]:
            if d not in defined:
                kinds.add("notfound")
    for x in defined:
        if "cyclic" in analyse({k: [d for d in v if d in defined] for k, v in deps.items()}, defined, x):
            kinds.add("cyclic")
            break
    if kinds:
        return ("error", kinds)
    dependees = {x: 0 for x in defined}
    for x in defined:
        for d in deps[x]:
            dependees[d] += 1
    return ("roots", {x for x, c in dependees.items() if c == 0})


# ---------------------------------------------------------------- graph -> project
def build(root, graph):
    """graph: {"nodes": [(pkg, name)...], "deps": {i: [j or 'G', ...]}, "ghost": (pkg, name)|None, "alias": bool}"""
    nodes = graph["nodes"]
    ghost = graph.get("ghost")
    tasks = []
    for i, (pkg, name) in enumerate(nodes):
        dl = []
        for k, j in enumerate(graph["deps"][i]):
            tp, tn = ghost if j == "G" else nodes[j]
            dl.append(gen.tid(tp, tn))
        t = gen.mk_task(pkg, name, graph.get("kinds", {}).get(str(i), "run_command"), dl, run=graph.get("run", "true"))
        # alternate spelling so that duplicates are not textually equal
        if graph.get("alias"):
            seen = set()
            ds = []
            for d, s in zip(t["deps"], t["dep_strs"]):
                if d in seen and s.startswith(":"):
                    s = d
                elif d in seen and gen.split_tid(d)[0] == pkg:
                    s = ":" + gen.split_tid(d)[1]
                seen.add(d)
                ds.append(s)
            t["dep_strs"] = ds
        tasks.append(t)
    gen.write_project(root, tasks)
    if ghost and ghost[0] not in {p for p, _ in nodes} and graph.get("ghost_dir"):
        os.makedirs(os.path.join(root, ghost[0]), exist_ok=True)
    return tasks


def canon(graph):
    nodes = graph["nodes"]
    ghost = graph.get("ghost")
    name = lambda j: gen.tid(*(ghost if j == "G" else nodes[j]))
    deps = {gen.tid(*nodes[i]): [name(j) for j in graph["deps"][i]] for i in range(len(nodes))}
    return deps, set(deps)


KIND = {"CyclicDependency": "cyclic", "TaskNotFound": "notfound", "MissingCondFile": "notfound", "DuplicateDependency": "dup"}


def eval_graphs(arg):
    graphs, explorer = arg
    common.import_repo()
    from conductor.parsing.task_index import TaskIndex
    from conductor.task_identifier import TaskIdentifier
    from conductor.errors import ConductorError
    out = {"sig": None, "nontrivial": True, "reach": {}, "violations": [], "inconclusive": [], "sets": {}}
    sigs = []
    with common.Scratch("cv14") as sc:
        for gi, graph in enumerate(graphs):
            root = os.path.join(sc.root, "g%d" % gi)
            build(root, graph)
            deps, defined = canon(graph)
            sigs.append(common.short_hash([sorted(deps.items()), graph["nodes"]]))
            for target in sorted(defined):
                app = analyse(deps, defined, target)
                idx = TaskIndex(pathlib.Path(root))
                got = None
                try:
                    with common.cpu_budget(3):
                        idx.load_transitive_closure(TaskIdentifier.from_str(target))
                except ConductorError as ex:
                    got = KIND.get(type(ex).__name__, "other:" + type(ex).__name__)
                    ctx_ok = ex.file_context is not None
                except common.CpuBudgetExceeded as ex:
                    got = "nontermination"
                    out["violations"].append({"key": "C14:validation-does-not-terminate", "msg": "load_transitive_closure(%s) on a %d-task graph (faults: %s) was still running after 3 s of CPU time; deps=%s" % (target, len(deps), sorted(app), deps),
                                              "witness": {"engine": "E5", "graph": graph, "target": target, "applicable": sorted(app), "got": got}})
                    out["sig"] = common.short_hash(sigs)
                    out["sets"]["graphs"] = sigs
                    out["violations"] = out["violations"][:3]
                    return out  # one witness per chunk is enough; every further one would cost CPU seconds
                except Exception as ex:
                    got = "crash:" + repr(ex)
                out["reach"]["c14_closure_loads"] = out["reach"].get("c14_closure_loads", 0) + 1
                out["reach"]["c14_" + (got.split(":")[0] if got else "accepted")] = out["reach"].get("c14_" + (got.split(":")[0] if got else "accepted"), 0) + 1
                W = {"engine": "E5", "graph": graph, "target": target, "applicable": sorted(app), "got": got}
                if got is None and app:
                    key = "C14:%s-graph-accepted" % sorted(app)[0]
                    out["violations"].append({"key": key, "msg": "load_transitive_closure(%s) accepted a graph with %s; deps=%s" % (target, sorted(app), deps), "witness": W})
                elif got is not None and not app:
                    out["violations"].append({"key": "C14:sound-graph-rejected", "msg": "load_transitive_closure(%s) raised %s on an acyclic, complete, duplicate-free graph; deps=%s" % (target, got, deps), "witness": W})
                elif got is not None and got not in app:
                    out["violations"].append({"key": "C14:wrong-error-kind", "msg": "load_transitive_closure(%s) reported %s but only %s applies; deps=%s" % (target, got, sorted(app), deps), "witness": W})
            if explorer and not any(len(set(v)) != len(v) for v in deps.values()):
                want = whole_project(deps, defined)
                idx = TaskIndex(pathlib.Path(root))
                for attempt in range(2):   # the explorer keeps one index and validates it again on every refresh
                    got = None
                    try:
                        with common.cpu_budget(3):
                            for rel in (sorted({pathlib.Path(p, "COND") for p, _ in graph["nodes"]}) if attempt == 0 else ()):
                                idx.load_all_tasks_in_cond_file(rel)
                            roots = idx.validate_all_loaded_tasks()
                        got = ("roots", {str(r) for r in roots})
                    except common.CpuBudgetExceeded:
                        got = ("crash", "does not terminate (10 s CPU)")
                    except ConductorError as ex:
                        got = ("error", KIND.get(type(ex).__name__, "other:" + type(ex).__name__))
                    except Exception as ex:
                        got = ("crash", repr(ex))
                    out["reach"]["c14_whole_project_validations"] = out["reach"].get("c14_whole_project_validations", 0) + 1
                    W = {"engine": "E5", "graph": graph, "validation_number_on_this_index": attempt + 1, "want": [want[0], sorted(want[1])], "got": [got[0], sorted(got[1]) if isinstance(got[1], set) else got[1]]}
                    if want[0] == "error":
                        if got[0] != "error":
                            out["violations"].append({"key": "C14:explorer-accepts-%s-project" % sorted(want[1])[0], "msg": "whole-project validation accepted a project with %s: %s" % (sorted(want[1]), deps), "witness": W})
                        elif got[1] not in want[1]:
                            out["violations"].append({"key": "C14:explorer-wrong-error-kind", "msg": "whole-project validation reported %s, applicable %s: %s" % (got[1], sorted(want[1]), deps), "witness": W})
                    else:
                        if got[0] != "roots":
                            out["violations"].append({"key": "C14:explorer-rejects-sound-project", "msg": "whole-project validation raised %s on a sound project: %s" % (got[1], deps), "witness": W})
                        elif got[1] != want[1]:
                            out["violations"].append({"key": "C14:explorer-wrong-roots", "msg": "roots %s, expected %s: %s" % (sorted(got[1]), sorted(want[1]), deps), "witness": W})
    out["sig"] = common.short_hash(sigs)
    out["sets"]["graphs"] = sigs
    out["violations"] = out["violations"][:3]
    out["sample"] = {"graph": graphs[0], "cond": None}
    return out


def cli_cases(arg):
    graphs, = arg
    cli.warm()
    out = {"sig": "cli", "nontrivial": True, "reach": {}, "violations": [], "inconclusive": [], "sets": {}}
    with common.Scratch("cv14c") as sc:
        for gi, graph in enumerate(graphs):
            root = os.path.join(sc.root, "g%d" % gi)
            sentinel = os.path.join(sc.root, "ran%d" % gi)
            graph = dict(graph, run="echo x >> %s" % sentinel)
            deps, defined = canon(graph)
            if gi % 2 == 1 and any(analyse(deps, defined, t) for t in defined):
                # the project was sound and has been run before (cached experiments exist); THEN the COND
                # files are edited so that a cycle / dangling / duplicate dependency appears
                healed = dict(graph, kinds={str(i): "run_experiment" for i in range(len(graph["nodes"]))}, alias=False,
                              deps={i: sorted({j for j in graph["deps"][i] if j != "G" and j < i}) for i in range(len(graph["nodes"]))})
                build(root, healed)
                for target in sorted(defined)[:2]:
                    cli.run_cli(["run", target], root, sc.root, timeout=60)
                if os.path.exists(sentinel):
                    os.unlink(sentinel)
                graph = dict(graph, kinds=healed["kinds"])
                out["reach"]["c14_cli_edited_after_run"] = out["reach"].get("c14_cli_edited_after_run", 0) + 1
            build(root, graph)
            made_before = {os.path.join(p, x) for p, d, f in os.walk(os.path.join(root, "cond-out")) for x in d if ".task" in x}
            for target in sorted(defined)[:2]:
                app = analyse(deps, defined, target)
                for check in (True, False):
                    if not app and not check:
                        continue
                    r = cli.run_cli(["run", target] + (["--check"] if check else []), root, sc.root, timeout=30, mode="exec" if (gi % 7 == 0 and check) else "fast")
                    out["reach"]["c14_cli_runs"] = out["reach"].get("c14_cli_runs", 0) + 1
                    if r["timed_out"]:
                        # wall-clock watchdog: never a verdict; stop this chunk (the in-process loads decide with a CPU-time budget)
                        out["inconclusive"].append({"why": "cond run did not return within the watchdog", "detail": cli.brief(r, 200)})
                        return out
                    W = {"engine": "cli", "graph": graph, "target": target, "applicable": sorted(app), "result": cli.brief(r)}
                    if "Traceback" in r.err:
                        out["violations"].append({"key": "C14:cli-traceback", "msg": "cond run %s%s printed a traceback: %s" % (target, " --check" if check else "", r.err[-500:]), "witness": W})
                        continue
                    if app:
                        kinds = {"cyclic": "cyclic dependency", "notfound": ("could not be found", "Could not find a required COND file"), "dup": "more than once"}
                        said = {k for k, pat in kinds.items() if any(p in r.err for p in ((pat,) if isinstance(pat, str) else pat))}
                        if r.code == 0:
                            out["violations"].append({"key": "C14:%s-graph-accepted" % sorted(app)[0], "msg": "cond run %s exited 0 on a graph with %s" % (target, sorted(app)), "witness": W})
                        elif "ERROR:" not in r.err or not (said & app):
                            out["violations"].append({"key": "C14:wrong-error-kind", "msg": "cond run %s: applicable %s, stderr: %s" % (target, sorted(app), r.err[-300:]), "witness": W})
                        ran = os.path.exists(sentinel)
                        made = sorted({os.path.join(p, x) for p, d, f in os.walk(os.path.join(root, "cond-out")) for x in d if ".task" in x} - made_before)
                        out["reach"]["c14_nothing_ran_checks"] = out["reach"].get("c14_nothing_ran_checks", 0) + 1
                        if ran or made:
                            out["violations"].append({"key": "C14:task-executed-despite-graph-error", "msg": "cond run %s reported a graph error but a task ran / an output directory was created (%s)" % (target, made), "witness": W})
                    elif r.code != 0:
                        out["violations"].append({"key": "C14:sound-graph-rejected", "msg": "cond run %s --check rejected a sound graph: %s" % (target, r.err[-300:]), "witness": W})
    out["sample"] = {"cli_graph": graphs[0]}
    return out


def explorer_route(arg):
    """The real FastAPI route function on a git-tracked project (the UI bundle is not built in this
    sandbox, so the static mount is neutralised while importing the module)."""
    graphs, = arg
    common.import_repo()
    import subprocess
    out = {"sig": "route", "nontrivial": True, "reach": {}, "violations": [], "inconclusive": [], "sets": {}}
    try:
        import fastapi.staticfiles as sf
        orig_init = sf.StaticFiles.__init__
        orig_mkdir = pathlib.Path.mkdir

        def init(self, *a, **k):
            k["check_dir"] = False
            return orig_init(self, *a, **k)

        def mkdir(self, *a, **k):
            try:
                return orig_mkdir(self, *a, **k)
            except FileExistsError:
                return None

        sf.StaticFiles.__init__ = init
        pathlib.Path.mkdir = mkdir
        try:
            import conductor.explorer.routes as routes
        finally:
            sf.StaticFiles.__init__ = orig_init
            pathlib.Path.mkdir = orig_mkdir
        from conductor.context import Context
        from fastapi import HTTPException
    except Exception as ex:
        out["reach"]["c14_route_unavailable"] = 1
        out["sample"] = {"route_import_error": repr(ex)}
        return out
    env = common.clean_env()
    with common.Scratch("cv14r") as sc:
        for gi, graph in enumerate(graphs):
            root = os.path.join(sc.root, "g%d" % gi)
            build(root, graph)
            with open(os.path.join(root, "cond_config.toml"), "w") as f:
                f.write("")
            for cmd in (["git", "init", "-q"], ["git", "add", "-A"], ["git", "commit", "-q", "-m", "x"]):
                subprocess.run(cmd, cwd=root, env=env, check=True, stdout=subprocess.DEVNULL, stderr=subprocess.DEVNULL)
            deps, defined = canon(graph)
            if any(len(set(v)) != len(v) for v in deps.values()):
                continue
            want = whole_project(deps, defined)
            routes.workspace.clear()
            routes.set_context(Context(pathlib.Path(root)))
            for refresh in range(2):   # a second request (page refresh) against the same server state
                try:
                    tg = routes.get_task_graph()
                    cid = lambda r: "//%s:%s" % ("" if r.path == "." else r.path, r.name)
                    got = ("roots", {cid(r) for r in tg.root_tasks}, {cid(t.identifier) for t in tg.tasks})
                except HTTPException as ex:
                    got = ("error", ex.detail)
                except Exception as ex:
                    got = ("crash", repr(ex))
                out["reach"]["c14_route_calls"] = out["reach"].get("c14_route_calls", 0) + 1
                W = {"engine": "E5-route", "graph": graph, "request_number": refresh + 1, "want": [want[0], sorted(want[1])], "got": [got[0], sorted(got[1]) if isinstance(got[1], set) else got[1]]}
                if want[0] == "error" and got[0] != "error":
                    out["violations"].append({"key": "C14:explorer-accepts-%s-project" % sorted(want[1])[0], "msg": "get_task_graph() accepted a project with %s" % sorted(want[1]), "witness": W})
                elif want[0] == "roots":
                    if got[0] != "roots":
                        out["violations"].append({"key": "C14:explorer-rejects-sound-project", "msg": "get_task_graph() failed on a sound project: %s" % (got[1],), "witness": W})
                    elif got[1] != want[1] or got[2] != defined:
                        out["violations"].append({"key": "C14:explorer-wrong-roots", "msg": "get_task_graph() roots %s tasks %s; expected roots %s tasks %s" % (sorted(got[1]), sorted(got[2]), sorted(want[1]), sorted(defined)), "witness": W})
    out["sample"] = {"route_graph": graphs[0] if graphs else None}
    return out


# ---------------------------------------------------------------- workload
def exhaustive3(with_ghost, all_orders, pkgs):
    n = 3
    targets = list(range(n)) + (["G"] if with_ghost else [])
    per_node = []
    for i in range(n):
        opts = []
        for r in range(len(targets) + 1):
            for comb in itertools.combinations(targets, r):
                if all_orders:
                    opts.extend(list(p) for p in itertools.permutations(comb))
                else:
                    opts.append(list(comb))
        per_node.append(opts)
    for combo in itertools.product(*per_node):
        yield {"nodes": [(pkgs[i], "n%d" % i) for i in range(n)], "deps": {i: combo[i] for i in range(n)}, "ghost": ("", "ghost") if with_ghost else None}


def exhaustive4():
    n = 4
    pairs = [(i, j) for i in range(n) for j in range(n)]
    for mask in range(1 << 16):
        deps = {i: [] for i in range(n)}
        for b, (i, j) in enumerate(pairs):
            if mask >> b & 1:
                deps[i].append(j)
        yield {"nodes": [("", "n%d" % i) for i in range(n)], "deps": deps, "ghost": None}


def random_graphs(rng, count):
    for _ in range(count):
        n = rng.randint(2, 9)
        pk = rng.sample(["", "a", "a/b", "c", "d-e"], rng.randint(1, 4))
        nodes = [(rng.choice(pk), "n%d" % i) for i in range(n)]
        if len(pk) > 1 and rng.random() < 0.4:
            # the same task NAME in several packages (identifiers stay unique): relative spellings coincide
            pool = ["n%d" % j for j in range(max(2, n // 2))]
            nodes, used = [], set()
            for i in range(n):
                for _ in range(20):
                    cand = (rng.choice(pk), rng.choice(pool))
                    if cand not in used:
                        break
                else:
                    cand = (rng.choice(pk), "u%d" % i)
                used.add(cand)
                nodes.append(cand)
        mode = rng.choice(["dag", "dag", "any", "dup", "ghost", "ghostdir"])
        deps = {}
        for i in range(n):
            cand = list(range(i)) if mode in ("dag", "dup", "ghost", "ghostdir") else list(range(n))
            k = rng.randint(0, min(4, len(cand)))
            dl = rng.sample(cand, k)
            if mode == "dup" and dl and rng.random() < 0.3:
                dl.insert(rng.randrange(len(dl) + 1), rng.choice(dl))
            if mode in ("ghost", "ghostdir") and rng.random() < 0.25:
                dl.insert(rng.randrange(len(dl) + 1), "G")
            deps[i] = dl
        g = {"nodes": nodes, "deps": deps, "ghost": None, "alias": rng.random() < 0.7}
        if mode == "ghost":
            g["ghost"] = (rng.choice(pk), "ghost")
        elif mode == "ghostdir":
            g["ghost"] = ("nopkg", "ghost")
            g["ghost_dir"] = rng.random() < 0.5
        yield g


def chunks(it, size):
    buf = []
    for x in it:
        buf.append(x)
        if len(buf) == size:
            yield buf
            buf = []
    if buf:
        yield buf


def main(tier, n=None):
    rep = common.Report(PROP, tier, "exploration", RULE)
    rep.assumptions = ["when several graph faults are reachable from the target any applicable kind may be reported (the statement does not fix precedence)",
                       "a dependency into a package without a COND file is reported as 'missing COND file' and counted in the not-found class",
                       "whole-project validation is exercised on duplicate-free graphs (the statement is silent on duplicates there)"]
    rng = common.rng_for("c14", common.base_seed())
    cases = []
    pk3 = ["", "", ""]
    g_all = list(exhaustive3(False, True, pk3))                     # 4096 COND sets x 3 targets
    cases += [(c, True) for c in chunks(g_all, 64)]
    g_multi = list(exhaustive3(False, False, ["", "a", "a/b"]))      # 512 edge sets, multi-file
    cases += [(c, True) for c in chunks(g_multi, 64)]
    g_ghost = list(exhaustive3(True, False, ["", "a", ""]))          # 4096 edge sets with an undefined dependency
    cases += [(c, True) for c in chunks(g_ghost, 64)]
    nrand = 3000 if tier == "quick" else 60000
    g_rand = list(random_graphs(rng, nrand))
    cases += [(c, True) for c in chunks(g_rand, 50)]
    exhaustive = ["3-node all orders", "3-node multi-file", "3-node + undefined dependency"]
    if tier == "thorough":
        cases += [(c, True) for c in chunks(exhaustive4(), 128)]
        exhaustive.append("4-node canonical order")
    if n:
        cases = cases[:n]
    cli.warm()
    res = common.parallel_map(eval_graphs, cases, timeout=900)
    rep.merge_pool(res, cases)
    ngraphs = len(rep.extra.get("graphs", ()))
    ncli = 40 if tier == "quick" else 400
    sample = rng.sample(g_all, ncli // 2) + rng.sample(g_ghost, ncli // 4) + g_rand[:ncli // 4]
    res2 = common.parallel_map(cli_cases, [(c,) for c in chunks(sample, 5)], timeout=900)
    rep.merge_pool(res2)
    rsample = rng.sample(g_multi, 30 if tier == "quick" else 300) + rng.sample(g_ghost, 10 if tier == "quick" else 100)
    res3 = common.parallel_map(explorer_route, [(c,) for c in chunks(rsample, 10)], timeout=900)
    rep.merge_pool(res3)
    rep.distinct = set(rep.extra.get("graphs", ())) | rep.distinct
    rep.evaluations = rep.reach.get("c14_closure_loads", 0) + rep.reach.get("c14_whole_project_validations", 0) + rep.reach.get("c14_cli_runs", 0) + rep.reach.get("c14_route_calls", 0)
    rep.extra["exhaustive_subspaces"] = exhaustive
    rep.exhaustive = not n
    return rep.finish(required_reach=["c14_closure_loads", "c14_accepted", "c14_cyclic", "c14_notfound", "c14_dup", "c14_whole_project_validations", "c14_cli_runs", "c14_nothing_ran_checks"])


def replay(path):
    with open(path) as f:
        v = json.load(f)
    w = v["witness"]
    if w.get("engine") == "cli":
        out = cli_cases(([w["graph"]],))
    elif w.get("engine") == "E5-route":
        out = explorer_route(([w["graph"]],))
    else:
        out = eval_graphs(([w["graph"]], True))
    for x in out["violations"]:
        print(x["msg"])
        print("VIOLATION property=%s replay=%s" % (PROP, path))
    return 1 if out["violations"] else 0
