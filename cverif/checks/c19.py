"""C19 - run_experiment_group is exactly its documented expansion (translation validation).

Every generated group definition G is written twice: as run_experiment_group(...) and as the
explicit run_experiment()* + combine() list the documentation says it stands for.  Both go
through the real loader (no model of the loader); loaded task sets must agree in identifier,
type, ordered deps, args, options, parallelizable flag and run string, and one is rejected iff
the other is.  A sample of accepted pairs is also executed over the interposed kernel with the
same scheduler seed and the two event logs are compared."""
import json
import os
import pathlib
import re

from .. import common, gen, schedsim

PROP = "C19"
RULE = ("group definitions: 0-6 instances, 0-3 shared deps (same / other COND file), chain_experiments on/off, per-instance args/options/parallelizable, duplicate instance names, "
        "instance named like the group or like another task, experiments omitted / list / tuple / generator, deps omitted / list / tuple; non-trivial = >=1 instance; "
        "distinct = hash(definition)")

VALS = [1, 0, -3, 2.5, 1e-07, True, False, "s", "a-b", "x_y", "", "7"]


def lit(v):
    return gen.py_lit(v)


def gen_def(rng):
    ninst = rng.choice([0, 1, 1, 2, 2, 3, 4, 6])
    ndeps = rng.choice([0, 0, 1, 2, 3])
    other = []
    for i in range(ndeps):
        other.append({"name": "dep%d" % i, "pkg": rng.choice(["", "", "lib"]), "kind": rng.choice(["run_command", "run_experiment", "group"])})
    extra_task = rng.random() < 0.3
    insts = []
    # instance names in an order that is NOT the lexicographic one (a power-of-two sweep 1, 2, 4, 8, 16; a descending
    # sweep; mixed case): the expansion keeps the order in which the instances are written
    numbering = rng.choice([list(range(6)), [1, 2, 4, 8, 16, 32], [32, 16, 8, 4, 2, 1], [10, 9, 100, 1, 20, 2], rng.sample(range(40), 6)])
    style = rng.choice(["exp-%d", "exp-%d", "sweep_%d", "T%d"])
    for i in range(ninst):
        d = {"name": style % numbering[i]}
        if rng.random() < 0.6:
            d["args"] = [rng.choice(VALS) for _ in range(rng.randint(0, 3))]
        if rng.random() < 0.6:
            keys = rng.sample(["threads", "mem", "k", "z-z", "a"], rng.randint(0, 3))
            d["options"] = {k: rng.choice(VALS) for k in keys}
        if rng.random() < 0.5:
            d["parallelizable"] = rng.random() < 0.6
        d["positional"] = rng.random() < 0.2
        insts.append(d)
    clash = rng.choice([None] * 8 + ["dup", "group", "other-before", "other-after"])
    if clash == "dup" and len(insts) >= 2:
        insts[rng.randrange(1, len(insts))]["name"] = insts[0]["name"]
    elif clash == "group" and insts:
        insts[rng.randrange(len(insts))]["name"] = "grp"
    elif clash in ("other-before", "other-after") and insts:
        insts[rng.randrange(len(insts))]["name"] = "solo"
        extra_task = True
    else:
        clash = None
    # instance fields of a type outside the documented one: the group passes them on as written, so both
    # forms must agree (both rejected)
    if insts and rng.random() < 0.12:
        j = rng.randrange(len(insts))
        insts[j]["raw_args"] = rng.choice(["'abc'", "('a', 'b')", "7", "{'a': 1}"])
    if insts and rng.random() < 0.1:
        j = rng.randrange(len(insts))
        insts[j]["raw_options"] = rng.choice(["[('k', 1)]", "'kv'", "[]", "(('k', 1),)"])
    twin = rng.random() < 0.25 and ninst > 0 and clash is None
    return {"pkg": rng.choice(["", "a", "a/b"]), "run": rng.choice(["./run.sh", "true", "python3 x.py --flag"]), "insts": insts, "twin": twin, "polluter": (not twin) and rng.random() < 0.2,
            "chain": rng.choice([None, False, True, True]), "deps": other, "deps_form": rng.choice(["list", "list", "list", "tuple", "omit", "omit"] if ndeps == 0 else ["list", "list", "list", "list", "tuple"]),
            "exp_form": rng.choice(["list", "list", "tuple", "genexpr", "omit"] if ninst == 0 else ["list", "list", "tuple", "genexpr"]),
            "extra": ("before" if clash == "other-before" else "after") if extra_task else None, "clash": clash}


def _deps_strs(d, pkg):
    out = []
    for o in d["deps"]:
        out.append((":" + o["name"]) if o["pkg"] == pkg else gen.tid(o["pkg"], o["name"]))
    return out


def write_forms(root_g, root_x, d):
    pkg = d["pkg"]
    dstr = _deps_strs(d, pkg)
    others = {}
    for o in d["deps"]:
        src = {"run_command": "run_command(name=%r, run='true')\n", "run_experiment": "run_experiment(name=%r, run='true')\n", "group": "group(name=%r)\n"}[o["kind"]] % o["name"]
        others.setdefault(o["pkg"], []).append(src)
    solo = "run_command(name='solo', run='true')\n"
    # --- group form
    inst_src = []
    for i in d["insts"]:
        if i.get("positional") and "raw_args" not in i and "raw_options" not in i:
            parts = [repr(i["name"])]
            if "args" in i:
                parts.append("[%s]" % ", ".join(lit(a) for a in i["args"]))
                if "options" in i:
                    parts.append("{%s}" % ", ".join("%r: %s" % (k, lit(v)) for k, v in i["options"].items()))
                    if "parallelizable" in i:
                        parts.append(repr(i["parallelizable"]))
            rest = []
            if "args" not in i and "options" in i:
                rest.append("options={%s}" % ", ".join("%r: %s" % (k, lit(v)) for k, v in i["options"].items()))
            if ("args" not in i or "options" not in i) and "parallelizable" in i:
                rest.append("parallelizable=%r" % i["parallelizable"])
            inst_src.append("ExperimentInstance(%s)" % ", ".join(parts + rest))
        else:
            parts = ["name=%r" % i["name"]]
            if "raw_args" in i:
                parts.append("args=%s" % i["raw_args"])
            elif "args" in i:
                parts.append("args=[%s]" % ", ".join(lit(a) for a in i["args"]))
            if "raw_options" in i:
                parts.append("options=%s" % i["raw_options"])
            elif "options" in i:
                parts.append("options={%s}" % ", ".join("%r: %s" % (k, lit(v)) for k, v in i["options"].items()))
            if "parallelizable" in i:
                parts.append("parallelizable=%r" % i["parallelizable"])
            inst_src.append("ExperimentInstance(%s)" % ", ".join(parts))
    gparts = ["name='grp'", "run=%r" % d["run"]]
    if d["exp_form"] == "list":
        gparts.append("experiments=[%s]" % ", ".join(inst_src))
    elif d["exp_form"] == "tuple":
        gparts.append("experiments=(%s)" % "".join(s + ", " for s in inst_src))
    elif d["exp_form"] == "genexpr":
        gparts.append("experiments=(e for e in [%s])" % ", ".join(inst_src))
    if d["chain"] is not None:
        gparts.append("chain_experiments=%r" % d["chain"])
    if d["deps_form"] == "list":
        gparts.append("deps=[%s]" % ", ".join(repr(x) for x in dstr))
    elif d["deps_form"] == "tuple":
        gparts.append("deps=(%s)" % "".join(repr(x) + ", " for x in dstr))
    gsrc = "run_experiment_group(\n  %s,\n)\n" % ",\n  ".join(gparts)
    # --- documented expansion
    xs = []
    prev = None
    for i in d["insts"]:
        parts = ["name=%r" % i["name"], "run=%r" % d["run"]]
        if "raw_args" in i:
            parts.append("args=%s" % i["raw_args"])
        elif i.get("args"):
            parts.append("args=[%s]" % ", ".join(lit(a) for a in i["args"]))
        if "raw_options" in i:
            parts.append("options=%s" % i["raw_options"])
        elif i.get("options"):
            parts.append("options={%s}" % ", ".join("%r: %s" % (k, lit(v)) for k, v in i["options"].items()))
        parts.append("parallelizable=%r" % bool(i.get("parallelizable", False)))
        deps = list(dstr) + ([prev] if (d["chain"] and prev) else [])
        if d["deps_form"] == "tuple" and not (d["chain"] and prev):
            # the shared deps value is passed through as written (a tuple is outside the documented
            # 'list' type and must be rejected by run_experiment in both forms)
            parts.append("deps=(%s)" % "".join(repr(x) + ", " for x in deps))
        else:
            parts.append("deps=[%s]" % ", ".join(repr(x) for x in deps))
        xs.append("run_experiment(\n  %s,\n)\n" % ",\n  ".join(parts))
        prev = ":" + i["name"]
    xs.append("combine(\n  name='grp',\n  deps=[%s],\n)\n" % ", ".join(repr(":" + i["name"]) for i in d["insts"]))
    xsrc = "\n".join(xs)
    twin_dir = "twinpkg"
    for root, body in ((root_g, gsrc), (root_x, xsrc)):
        os.makedirs(root, exist_ok=True)
        if d.get("twin"):
            # the same definition once more in another COND file: instance names only have to be unique per file
            tb = body
            for o in d["deps"]:
                if o["pkg"] == pkg:
                    tb = tb.replace("':%s'" % o["name"], "'%s'" % gen.tid(o["pkg"], o["name"]))
            os.makedirs(os.path.join(root, twin_dir), exist_ok=True)
            open(os.path.join(root, twin_dir, "COND"), "w").write(tb)
        open(os.path.join(root, "cond_config.toml"), "w").write("disable_git = true\n")
        files = {k: list(v) for k, v in others.items()}
        mine = files.setdefault(pkg, [])
        if d["extra"] == "before":
            mine.insert(0, solo)
        mine.append(body)
        if d["extra"] == "after":
            mine.append(solo)
        if d.get("twin"):
            mine.append("group(name='both', deps=[':grp', '//%s:grp'])\n" % twin_dir)
        for p, srcs in files.items():
            os.makedirs(os.path.join(root, p), exist_ok=True)
            open(os.path.join(root, p, "COND"), "w").write("\n".join(srcs))
        if d.get("polluter"):
            # another COND file, parsed BEFORE the one under test, fills in an instance it created with defaults (a sweep
            # written as `e = ExperimentInstance(name=...); e.options[...] = ...`); nothing of it may be visible elsewhere
            os.makedirs(os.path.join(root, "pre0"), exist_ok=True)
            open(os.path.join(root, "pre0", "COND"), "w").write(
                "_e = ExperimentInstance(name='scratch')\n_e.args.append('leaked-arg')\n_e.options['leaked'] = 1\n"
                "group(name='entry', deps=[%r])\n" % gen.tid(pkg, "grp"))
    return gsrc, xsrc


def load_all(root, pkg, tmpd, twin=False, polluter=False):
    from conductor.parsing.task_index import TaskIndex
    from conductor.task_identifier import TaskIdentifier
    from conductor.errors import ConductorError
    idx = TaskIndex(pathlib.Path(root))
    try:
        with common.cpu_budget(5):
            idx.load_transitive_closure(TaskIdentifier.from_str("//pre0:entry" if polluter else gen.tid(pkg, "both" if twin else "grp")))
            idx.load_all_tasks_in_cond_file(pathlib.Path(pkg, "COND"))
    except ConductorError as ex:
        return ("rejected", type(ex).__name__)
    except common.CpuBudgetExceeded:
        return ("rejected", "does-not-terminate")
    res = {}
    for ident, t in idx.get_all_loaded_tasks().items():
        rec = {"type": type(t).__name__, "deps": [str(x) for x in t.deps], "parallelizable": bool(t.parallelizable)}
        if hasattr(t, "raw_run"):
            rec["run"] = t.raw_run
            rec["args_cmd"] = t.args.serialize_cmdline()
            rec["opts_cmd"] = t.options.serialize_cmdline()
            for nm, obj in (("args_json", t.args), ("opts_json", t.options)):
                if obj.empty():
                    rec[nm] = None
                else:
                    p = os.path.join(tmpd, "j.json")
                    obj.serialize_json(pathlib.Path(p))
                    rec[nm] = open(p).read()
        res[str(ident)] = rec
    return ("loaded", res)


def eval_defs(arg):
    defs, execute = arg
    common.import_repo()
    out = {"sig": None, "nontrivial": True, "reach": {}, "violations": [], "inconclusive": [], "sets": {}}
    sigs = []
    with common.Scratch("cv19") as sc:
        for k, d in enumerate(defs):
            rg, rx = os.path.join(sc.root, "g%d" % k), os.path.join(sc.root, "x%d" % k)
            gsrc, xsrc = write_forms(rg, rx, d)
            sigs.append(common.short_hash(d))
            a = load_all(rg, d["pkg"], sc.root, d.get("twin"), d.get("polluter"))
            b = load_all(rx, d["pkg"], sc.root, d.get("twin"), d.get("polluter"))
            out["reach"]["c19_pairs"] = out["reach"].get("c19_pairs", 0) + 1
            W = {"engine": "E5", "definition": d, "group_form": gsrc, "expansion": xsrc, "group_result": a, "expansion_result": b}
            if a[0] != b[0]:
                key = "C19:group-rejected-but-expansion-accepted" if a[0] == "rejected" else "C19:group-accepted-but-expansion-rejected"
                if d["exp_form"] == "omit" and a[0] == "rejected":
                    key = "C19:omitted-experiments-rejected"
                out["violations"].append({"key": key, "msg": "group form %s (%s), documented expansion %s (%s)\n%s" % (a[0], a[1] if a[0] == "rejected" else "", b[0], b[1] if b[0] == "rejected" else "", gsrc), "witness": W})
                continue
            if a[0] == "rejected":
                out["reach"]["c19_both_rejected"] = out["reach"].get("c19_both_rejected", 0) + 1
                continue
            out["reach"]["c19_both_loaded"] = out["reach"].get("c19_both_loaded", 0) + 1
            if a[1] != b[1]:
                diff = []
                for t in sorted(set(a[1]) | set(b[1])):
                    if a[1].get(t) != b[1].get(t):
                        diff.append({"task": t, "group": a[1].get(t), "expansion": b[1].get(t)})
                fld = "task-set"
                if diff and diff[0]["group"] and diff[0]["expansion"]:
                    fld = sorted(f for f in diff[0]["group"] if diff[0]["group"][f] != diff[0]["expansion"].get(f))[0]
                out["violations"].append({"key": "C19:expansion-differs-in-" + fld, "msg": "loaded tasks differ: %s\n%s" % (json.dumps(diff[:2]), gsrc), "witness": W})
                continue
            if execute and k % execute == 0 and d["insts"]:
                logs = []
                for root in (rg, rx):
                    spec = {"root": root, "argv": ["run", gen.tid(d["pkg"], "grp"), "-j", "3"], "strategy": "blocked-random", "seed": 1234 + k}
                    kind, res = common.run_forked(schedsim.run_invocation, spec, 90)
                    if kind != "ok":
                        logs.append(None)
                        continue
                    ev = []
                    for t, kk, dd in res["log"]:
                        if kk == "spawn":
                            env = {a0: re.sub(r"\.task\.\d+", ".task.TS", b0.replace(root, "ROOT")) for a0, b0 in dd["env"].items()}
                            ev.append(["spawn", dd["task"], dd["argv"], env, dd["cwd"].replace(root, "ROOT")])
                        elif kk in ("exit", "reap"):
                            ev.append([kk, dd["task"], dd["status"]])
                        elif kk == "stdout":
                            ev.append(["out", re.sub(r"Ran for [0-9.]+ seconds", "Ran for X", dd["text"])])
                        elif kk == "fs":
                            ev.append(["fs", dd["op"], re.sub(r"\.task\.\d+", ".task.TS", str(dd["path"]).replace(root, "ROOT"))])
                    ev.append(["return", res["result"]])
                    logs.append(ev)
                if None in logs:
                    out["inconclusive"].append({"why": "executed pair did not complete", "detail": None})
                else:
                    out["reach"]["c19_executed_pairs"] = out["reach"].get("c19_executed_pairs", 0) + 1
                    out["reach"]["c19_events_compared"] = out["reach"].get("c19_events_compared", 0) + len(logs[0])
                    if logs[0] != logs[1]:
                        i0 = next((i for i, (x, y) in enumerate(zip(logs[0], logs[1])) if x != y), min(len(logs[0]), len(logs[1])))
                        out["violations"].append({"key": "C19:executions-differ", "msg": "event logs of group form and expansion differ at event %d: %s vs %s" % (i0, logs[0][i0:i0 + 1], logs[1][i0:i0 + 1]), "witness": W})
    out["sig"] = common.short_hash(sigs)
    out["sets"]["definitions"] = sigs
    out["violations"] = out["violations"][:3]
    out["sample"] = {"definition": defs[0], "group_form": gsrc, "expansion": xsrc}
    return out


def main(tier, n=None):
    from . import _sched_common as S
    S.warm()
    rep = common.Report(PROP, tier, "translation_validation", RULE)
    rep.assumptions = ["the documented expansion is: one run_experiment per instance (deps = group deps [+ previous instance if chain_experiments]) followed by combine(name, deps=instances)",
                       "don't-care: deps=None passed explicitly, non-ExperimentInstance elements, which error class a rejected pair reports"]
    rng = common.rng_for("c19", common.base_seed())
    total = n or (3000 if tier == "quick" else 100000)
    defs = [gen_def(rng) for _ in range(total)]
    per = 25
    cases = [(defs[i:i + per], 6 if tier == "quick" else 10) for i in range(0, len(defs), per)]
    res = common.parallel_map(eval_defs, cases, timeout=900)
    rep.merge_pool(res, cases)
    rep.distinct = set(rep.extra.get("definitions", ()))
    rep.evaluations = rep.reach.get("c19_pairs", 0)
    rep.extra["programs"] = rep.reach.get("c19_pairs", 0)
    rep.extra["disagreements_checked"] = rep.reach.get("c19_both_loaded", 0) + rep.reach.get("c19_both_rejected", 0)
    return rep.finish(required_reach=["c19_pairs", "c19_both_loaded", "c19_both_rejected", "c19_executed_pairs"])


def replay(path):
    from . import _sched_common as S
    S.warm()
    with open(path) as f:
        v = json.load(f)
    out = eval_defs(([v["witness"]["definition"]], 1))
    for x in out["violations"]:
        print(x["msg"])
        print("VIOLATION property=%s replay=%s" % (PROP, path))
    return 1 if out["violations"] else 0
