"""C04 - --jobs bound, exclusive sequential tasks, distinct COND_SLOT values (sweep-line over the
exact execution intervals of the interposed kernel + the environment each process received)."""
from . import _sched_common as S
from .. import sched

PROP = "C04"
RULE = ("wide task graphs (up to 12 simultaneously ready tasks, mixed parallelizable flags, group/combine operations becoming ready between parallel ones) x --jobs 1..6 x kernel completion orders "
        "(fifo/lifo/random/batched/starvation, so slots are recycled in every order); non-trivial = >=2 tasks executed; distinct = hash(graph, flags, interleaving)")


def main(tier, n=None):
    plan = [("wide", 1100, 60000, None, 8), ("deps", 300, 10000, None, 8), ("wide", 150, 6000, list(sched.schedsim.LINE_STRATEGIES), 6)]
    rep, code = S.run(PROP, tier, "exploration", RULE, plan, ["c04_env_checks", "c04_instants", "c04_e1_quiescent_points", "c04_e1_env_checks"], n, e1=("wide", 60, 1500, 7))
    return code


def replay(path):
    return S.replay(PROP, path)
