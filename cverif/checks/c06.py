"""C06 - only successful runs become versions; the index never outlives its data.

E3: Conductor is killed (os._exit(137): no finally, no atexit, no commit - the on-disk effect of
SIGKILL) at enumerated main-thread line events of `cond run` / `restore` / `archive` / `gc`, and
by real SIGKILL after random delays (lands inside C calls); afterwards, once orphaned tasks have
ended, a *fresh* sqlite connection and the file system are audited against the disk invariant:
every recorded version has its directory, the task's completion marker, complete logs, its
args/options records, belongs to an execution that exited 0 and carries HEAD's commit/dirty flag
of that invocation."""
import json
import math
import os
import shutil
import signal
import time

from .. import common, cli, gen, realrun

PROP = "C06"
RULE = ("scenarios {3 experiments with args+options, outcomes exit 0 / exit 7 / SIGKILL; sequential and -j3; git clean / dirty / no git; prior versions present} x every selected main-thread line "
        "event of run (quick: all line events in finish_execution / version_index / output_handler + first occurrence of every other site; thorough: every line event) + crash points of "
        "archive / clean+restore / gc + real SIGKILL at random delays; non-trivial = crash point after the first task was spawned; distinct = (scenario, site, occurrence)")

CRIT = ("execution/ops/run_task_executable.py", "execution/version_index.py", "utils/output_handler.py", "utils/tee.py", "cli/restore.py", "cli/archive.py", "cli/gc.py", "utils/run_arguments.py", "utils/run_options.py")
OUT_PAYLOAD = b"line one\n" + bytes(range(256)) * 40 + b"\nlast line\n"
ERR_PAYLOAD = b"warning: something\n" * 50


def scenarios():
    out = []
    for jobs in (None, 3):
        for git in ("none", "clean", "dirty"):
            out.append({"name": "run-%s-%s" % ("seq" if jobs is None else "j3", git), "cmd": "run", "jobs": jobs, "git": git, "prior": git == "none"})
    # git integration switched off in a project that IS a repository (with uncommitted changes): versions carry no commit
    out.append({"name": "run-seq-git-disabled-in-a-repository", "cmd": "run", "jobs": None, "git": "disabled-repo", "prior": False})
    out.append({"name": "run-j3-git-disabled-in-a-repository", "cmd": "run", "jobs": 3, "git": "disabled-repo", "prior": True, "complete_only": True})
    # other ways of having (or not having) uncommitted changes: staged only, a staged new file, a deleted tracked
    # file, untracked files only (not a change of the committed state)
    for g in ("staged", "staged-new-file", "deleted", "untracked-only", "touched"):
        out.append({"name": "run-seq-git-" + g, "cmd": "run", "jobs": None, "git": g, "prior": False, "complete_only": True})
    out.append({"name": "run-j3-unrelated-children", "cmd": "run", "jobs": 3, "git": "none", "prior": False, "prefork": [[15, 0], [40, 0], [90, 0], [160, 0]]})
    out.append({"name": "run-seq-unrelated-children", "cmd": "run", "jobs": None, "git": "none", "prior": True, "prefork": [[10, 0], [60, 0], [140, 0], [250, 0]]})
    # an earlier, unrecorded (failed) execution left <name>.task.T behind and the clock yields T again
    out.append({"name": "run-seq-leftover-same-clock", "cmd": "run", "jobs": None, "git": "none", "prior": False, "leftover_clock": 1_610_000_000})
    out.append({"name": "run-j3-leftover-same-clock", "cmd": "run", "jobs": 3, "git": "none", "prior": True, "leftover_clock": 1_610_000_000})
    # a command that exits 0 after having moved away / deleted / replaced by a link its own output directory: there is no
    # finished output in the version's directory, so there must be no version
    out.append({"name": "run-seq-task-moves-its-output-away", "cmd": "run", "jobs": None, "git": "none", "prior": True, "output_gone": {"//a/b:ok3": "move", "//a:ok2": "delete"}, "complete_only": True})
    out.append({"name": "run-j3-task-removes-its-output", "cmd": "run", "jobs": 3, "git": "none", "prior": False, "output_gone": {"//a/b:ok3": "delete", "//:ok1": "move"}, "complete_only": True})
    out.append({"name": "run-seq-task-replaces-its-output-by-a-link", "cmd": "run", "jobs": None, "git": "none", "prior": False, "output_gone": {"//a/b:ok3": "replace-with-link"}, "complete_only": True})
    out.append({"name": "restore", "cmd": "restore", "jobs": None, "git": "none", "prior": True})
    out.append({"name": "restore-after-killed-restore", "cmd": "restore", "jobs": None, "git": "none", "prior": True, "killed_restore_first": True})
    out.append({"name": "archive", "cmd": "archive", "jobs": None, "git": "none", "prior": True})
    out.append({"name": "gc", "cmd": "gc", "jobs": None, "git": "none", "prior": True})
    # "killed at any point of ANY command": clean removes everything; whatever survives must still be consistent
    out.append({"name": "clean", "cmd": "clean", "jobs": None, "git": "none", "prior": True})
    return out


def build(scroot, scn):
    T = gen.mk_task
    par = scn["jobs"] is not None
    tasks = [T("", "ok1", "run_experiment", par=par, args=[1, "x", 2.5, True], options={"k": 1e-07, "name": "v"}),
             T("a", "ok2", "run_experiment", ["//:ok1"], par=par, options={"only": False}),
             T("a", "bad", "run_experiment", par=par, args=["z"]),
             T("a/b", "killed", "run_experiment", par=par),
             # (without arguments when it is the task that makes its own output directory disappear: nothing but the
             # version row is then written after the command has exited)
             T("a/b", "ok3", "run_experiment", par=par, args=([] if "//a/b:ok3" in (scn.get("output_gone") or {}) else [7])),
             T("", "top", "group", ["//a:ok2", "//a:bad", "//a/b:killed", "//a/b:ok3"])]
    scripts = {}
    for t in tasks:
        if t["kind"] != "run_experiment":
            continue
        steps = [["out", 1, realrun.b64(OUT_PAYLOAD)], ["out", 2, realrun.b64(ERR_PAYLOAD)], ["file", "result/data.bin", realrun.b64(b"R" * 5000)], ["marker"]]
        scripts[t["id"]] = {"steps": steps}
    scripts["//a:bad"]["exit"] = 7
    for tid, how in (scn.get("output_gone") or {}).items():
        scripts[tid]["steps"].append(["rmout", how])
    scripts["//a/b:killed"]["signal"] = 9
    pr = realrun.Project(scroot, tasks, scripts, disable_git=(scn["git"] in ("none", "disabled-repo")))
    if scn["git"] != "none":
        open(os.path.join(pr.root, ".gitignore"), "w").write("cond-out\n")
        open(os.path.join(pr.root, "src.txt"), "w").write("0\n")
        realrun.git(pr.root, "init", "-q", "-b", "main")
        realrun.git(pr.root, "add", "-A")
        realrun.git(pr.root, "commit", "-q", "-m", "c0")
        if scn["git"] in ("dirty", "disabled-repo"):
            open(os.path.join(pr.root, "src.txt"), "a").write("uncommitted\n")
        elif scn["git"] == "staged":
            open(os.path.join(pr.root, "src.txt"), "a").write("staged, nothing unstaged\n")
            realrun.git(pr.root, "add", "src.txt")
        elif scn["git"] == "staged-new-file":
            open(os.path.join(pr.root, "new.txt"), "w").write("new\n")
            realrun.git(pr.root, "add", "new.txt")
        elif scn["git"] == "deleted":
            os.unlink(os.path.join(pr.root, "src.txt"))
        elif scn["git"] == "touched":
            # same content, other time stamps (touch, a copied checkout, a restored backup): not a change
            st0 = os.stat(os.path.join(pr.root, "src.txt"))
            os.utime(os.path.join(pr.root, "src.txt"), (st0.st_atime + 1000, st0.st_mtime + 1000))
        elif scn["git"] == "untracked-only":
            open(os.path.join(pr.root, "scratch-notes.txt"), "w").write("never added\n")
    if scn["prior"]:
        pr.cond(["run", "//:ok1"], timeout=60, clock=[1_600_000_000])
        pr.cond(["run", "//a/b:ok3", "--again"], timeout=60, clock=[1_600_000_100])
    extra = {}
    if scn.get("leftover_clock"):
        keep = json.loads(json.dumps(pr.scripts))
        for tid in ("//:ok1", "//a/b:ok3"):
            pr.scripts[tid] = {"steps": [["file", "leftover-of-failed-run.txt", realrun.b64(b"partial")]], "exit": 7}
        pr.write_scn()
        pr.cond(["run", "//:ok1"], timeout=60, clock=[scn["leftover_clock"]])
        pr.cond(["run", "//a/b:ok3"], timeout=60, clock=[scn["leftover_clock"]])
        pr.scripts = keep
        pr.write_scn()
    if scn["cmd"] in ("restore",):
        ap = os.path.join(scroot, "kept.tar.gz")
        pr.cond(["run", "//a:ok2"], timeout=60, clock=[1_600_000_200])
        a = pr.cond(["archive", "-o", ap], timeout=60)
        extra["archive"] = ap
        extra["rows_archived"] = pr.rows()
        pr.cond(["clean", "-f"], timeout=60)
        pr.cond(["run", "//a/b:ok3"], timeout=60, clock=[1_600_000_300])
        if scn.get("killed_restore_first"):
            # an earlier restore of the same archive died while copying: partial, unrecorded directories remain
            import random as _r
            cpath = os.path.join(scroot, "count0.json")
            pr.cond(["restore", ap], timeout=60, count=cpath, extra_files=[shutil.__file__])
            c0 = json.load(open(cpath)) if os.path.exists(cpath) else {"sites": {}}
            pr.cond(["clean", "-f"], timeout=60)
            pr.cond(["run", "//a/b:ok3"], timeout=60, clock=[1_600_000_300])
            ks = [k for site, occ in c0["sites"].items() if site.startswith("shutil.py") for k in occ]
            if ks:
                k = sorted(ks)[len(ks) // 2]
                pr.cond(["restore", ap], timeout=60, crash_at=k, crash_note=os.path.join(scroot, "n0.json"), extra_files=[shutil.__file__])
    if scn["cmd"] == "gc":
        os.makedirs(os.path.join(pr.root, "cond-out", "a", "ghost.task.5", "d"), exist_ok=True)
        os.makedirs(os.path.join(pr.root, "cond-out", "ok1.task.77"), exist_ok=True)
        os.symlink("a", os.path.join(pr.root, "cond-out", "latest"))  # a user-made shortcut into cond-out
    return pr, extra


def command(scn, pr, extra, scroot):
    if scn["cmd"] == "run":
        return ["run", "//:top", "--again"] + (["-j", str(scn["jobs"])] if scn["jobs"] else [])
    if scn["cmd"] == "restore":
        return ["restore", extra["archive"]]
    if scn["cmd"] == "archive":
        return ["archive", "-o", os.path.join(scroot, "new-archive.tar.gz")]
    if scn["cmd"] == "clean":
        return ["clean", "-f"]
    return ["gc", "-v"]


def task_pids(pr):
    """every live process started for this project's tasks (bash -c wrapper, probe, grandchildren):
    their command line carries the scenario path - also finds tasks forked just before Conductor
    died that have not logged anything yet"""
    needle = pr.scn_path.encode()
    pids = []
    for d in os.listdir("/proc"):
        if not d.isdigit():
            continue
        try:
            with open("/proc/%s/cmdline" % d, "rb") as f:
                if needle in f.read():
                    pids.append(int(d))
        except OSError:
            pass
    return pids


def wait_orphans(pr, timeout=8.0):
    """after Conductor died its task processes live on: wait until all of them are gone"""
    t0 = time.monotonic()
    alive = []
    while time.monotonic() - t0 < timeout:
        alive = task_pids(pr)
        if not alive:
            return True
        time.sleep(0.01)
    for p in alive:
        try:
            os.kill(p, signal.SIGKILL)
        except OSError:
            pass
    return False


def same(a, b):
    if type(a) is not type(b):
        return False
    if isinstance(a, float) and math.isnan(a):
        return math.isnan(b)
    return a == b


def audit(pr, rows_before, head, out, W, bump):
    """the disk invariant, evaluated through a fresh connection"""
    rows = pr.rows()
    if isinstance(rows, str) and "no such table" in rows:
        # killed while the index was being created for the first time: no version is recorded
        # (the property is about recorded versions; that later commands reject this file is noted
        # in DESIGN.md as an observation outside C06)
        bump("c06_index_without_table")
        rows = []
    if isinstance(rows, str):
        out["violations"].append({"key": "C06:index-unreadable-after-crash", "msg": "the version index cannot be read after the crash: %s" % rows, "witness": W})
        return
    evs = pr.events()
    ends = {}
    for e in evs:
        if e["kind"] == "start":
            ends.setdefault((e["task"], e["env"].get("COND_OUT")), {"pid": e["pid"], "end": None})
        elif e["kind"] == "end":
            for k, v in ends.items():
                if v["pid"] == e["pid"]:
                    v["end"] = e
    before = {(r[0], r[1]) for r in rows_before}
    for r in rows:
        bump("c06_rows_audited")
        d = pr.out_dir(r[0], r[1])
        new = (r[0], r[1]) not in before
        if not os.path.isdir(d):
            out["violations"].append({"key": "C06:recorded-version-without-directory", "msg": "row %s has no directory %s" % (r, d), "witness": W})
            return
        if not os.path.exists(os.path.join(d, "DONE")):
            out["violations"].append({"key": "C06:recorded-version-without-finished-output", "msg": "row %s: %s lacks the task's completion marker" % (r, d), "witness": W})
            return
        for fname, want in (("stdout.log", OUT_PAYLOAD), ("stderr.log", ERR_PAYLOAD)):
            try:
                got = open(os.path.join(d, fname), "rb").read()
            except OSError:
                got = None
            if got != want:
                out["violations"].append({"key": "C06:recorded-version-with-incomplete-log", "msg": "row %s: %s has %s bytes, the task wrote %d" % (r, fname, None if got is None else len(got), len(want)), "witness": W})
                return
        t = pr.tb[r[0]]
        for fname, decl in (("args.json", t["args"]), ("options.json", t["options"])):
            p = os.path.join(d, fname)
            if bool(decl) != os.path.exists(p):
                out["violations"].append({"key": "C06:recorded-version-without-args-record" if decl else "C06:args-record-for-empty-args", "msg": "row %s: %s %s (declared %r)" % (r, fname, "missing" if decl else "present", decl), "witness": W})
                return
            if decl:
                try:
                    got = json.load(open(p))
                except ValueError as ex:
                    out["violations"].append({"key": "C06:recorded-version-with-incomplete-args-record", "msg": "row %s: %s does not decode (%s)" % (r, fname, ex), "witness": W})
                    return
                ok = (all(same(x, y) for x, y in zip(got, decl)) and len(got) == len(decl)) if isinstance(decl, list) else (isinstance(got, dict) and set(got) == set(decl) and all(same(got[k], decl[k]) for k in decl))
                if not ok:
                    out["violations"].append({"key": "C06:args-record-differs", "msg": "row %s: %s = %r, declared %r" % (r, fname, got, decl), "witness": W})
                    return
        if new and W.get("cmd") == "run":
            rec = ends.get((r[0], d))
            if rec is None or rec["end"] is None or rec["end"].get("code") != 0:
                out["violations"].append({"key": "C06:version-recorded-for-execution-that-did-not-exit-0", "msg": "row %s recorded, but that execution's end record is %s" % (r, None if rec is None else rec["end"]), "witness": W})
                return
            if head is not None:
                bump("c06_commit_flag_checks")
                if r[2] != head[0] or bool(r[3]) != head[1]:
                    out["violations"].append({"key": "C06:version-recorded-with-wrong-commit-or-dirty-flag", "msg": "row %s, HEAD at invocation start was %s dirty=%s" % (r, head[0], head[1]), "witness": W})
                    return
    return rows


def crash_group(arg):
    """one pool task = one scenario state built once + many crash points, each on a restored copy"""
    scn, ks = arg
    cli.warm()
    outs = []
    with common.Scratch("cv06") as sc:
        pr, extra = build(sc.root, scn)
        pristine = os.path.join(sc.root, "pristine")
        shutil.copytree(pr.root, pristine, symlinks=True)
        for k, nth in ks:
            shutil.rmtree(pr.root, ignore_errors=True)
            shutil.copytree(pristine, pr.root, symlinks=True)
            if scn["git"] not in ("none", "touched"):
                # copying changes stat data; the scenarios that are about something else start from a refreshed index
                # ("touched" is about exactly this: a copied checkout whose content equals HEAD is clean)
                realrun.git(pr.root, "update-index", "-q", "--refresh", check=False)
            open(pr.log, "w").close()
            pr._pos = 0
            for f in ("crash-note.json", "new-archive.tar.gz"):
                try:
                    os.unlink(os.path.join(sc.root, f))
                except OSError:
                    pass
            outs.append(crash_case(scn, k, nth, pr, extra, sc))
    merged = {"sig": common.short_hash([o["sig"] for o in outs]), "nontrivial": True, "reach": {}, "violations": [], "inconclusive": [], "sets": {"case_sigs": []}}
    for o in outs:
        for kk, v in o["reach"].items():
            merged["reach"][kk] = merged["reach"].get(kk, 0) + v
        merged["violations"] += o["violations"]
        merged["inconclusive"] += o["inconclusive"]
        for kk, v in o["sets"].items():
            merged["sets"].setdefault(kk, []).extend(v)
        if o["nontrivial"]:
            merged["sets"]["case_sigs"].append(o["sig"])
        if "sample" in o:
            merged["sample"] = o["sample"]
    merged["reach"]["c06_cases"] = len(outs)
    merged["violations"] = merged["violations"][:3]
    return merged


def crash_case(scn, k, nth, pr, extra, sc):
    out = {"sig": "%s-%s" % (scn["name"], k), "nontrivial": False, "reach": {}, "violations": [], "inconclusive": [], "sets": {}}
    R = out["reach"]

    def bump(key, n=1):
        R[key] = R.get(key, 0) + n

    if True:
        rows_before = pr.rows()
        head = None
        if scn["git"] != "none":
            # dirty = the committed state differs from index or work tree for tracked paths (independent porcelain query)
            if scn["git"] == "touched":
                head = (realrun.git(pr.root, "rev-parse", "HEAD"), False)   # (asking `git status` here would refresh the index and undo the scenario)
            else:
                head = (realrun.git(pr.root, "rev-parse", "HEAD"), bool(realrun.git(pr.root, "status", "--porcelain", "--untracked-files=no"))) if scn["git"] != "disabled-repo" else (None, False)
        argv = command(scn, pr, extra, sc.root)
        note = os.path.join(sc.root, "crash-note.json")
        kw = {}
        sigkill = isinstance(k, str)
        if k is None:
            pass
        elif sigkill:
            delay = float(k.split(":")[1])
            t_start = time.monotonic()
            done = {"x": False}

            def poll(pid):
                if not done["x"] and time.monotonic() - t_start >= delay:
                    done["x"] = True
                    try:
                        os.kill(pid, signal.SIGKILL)
                    except OSError:
                        pass

            kw["poll"] = poll
        else:
            kw.update(crash_at=k, crash_note=note, extra_files=[shutil.__file__] if scn["cmd"] in ("restore", "gc", "clean") else [])
        if scn.get("prefork"):
            kw["prefork"] = [tuple(x) for x in scn["prefork"]]
        if scn.get("leftover_clock"):
            kw["clock"] = [scn["leftover_clock"]]
        pr.events(new_only=True)
        r = pr.cond(argv, timeout=120, **kw)
        site = None
        if os.path.exists(note):
            site = json.load(open(note))
        crashed = (r.code == 137) or (r["signal"] == 9)
        W = {"engine": "E3", "scenario": scn, "cmd": scn["cmd"], "argv": argv, "crash_at": k, "site": site, "result": cli.brief(r, 600), "rows_before": rows_before}
        if r["timed_out"]:
            out["inconclusive"].append({"why": "command timed out (watchdog)", "detail": cli.brief(r)})
            return out
        if k is not None and not crashed:
            bump("c06_crash_point_not_reached")
        if crashed:
            bump("c06_crashes")
            if sigkill:
                bump("c06_real_sigkills")
        else:
            bump("c06_uncrashed_runs")
            if scn.get("output_gone"):
                bump("c06_uncrashed_runs_with_vanishing_output_directories")
        if not wait_orphans(pr):
            out["inconclusive"].append({"why": "orphaned tasks did not end", "detail": None})
        started = [e for e in pr.events() if e["kind"] == "start"]
        out["nontrivial"] = bool(started) or scn["cmd"] != "run"
        if site:
            out["sig"] = "%s|%s|%d" % (scn["name"], site["site"], nth)
            out["sets"]["sites"] = [site["site"]]
        audit(pr, rows_before, head, out, W, bump)
        if not out["violations"] and not crashed and scn["cmd"] == "run":
            # crash-free run: exactly the experiments that exited 0 were recorded
            rows = pr.rows()
            added = sorted(r0[0] for r0 in rows if (r0[0], r0[1]) not in {(x[0], x[1]) for x in rows_before})
            want = sorted(t0 for t0 in ["//:ok1", "//a:ok2", "//a/b:ok3"] if t0 not in (scn.get("output_gone") or {}))
            # (a dependent of a task whose output directory vanished is skipped with it)
            if "//:ok1" in (scn.get("output_gone") or {}):
                want = [t0 for t0 in want if t0 != "//a:ok2"]
            bump("c06_complete_run_checks")
            if added != want:
                out["violations"].append({"key": "C06:recorded-set-differs-from-successful-executions", "msg": "rows added for %s; executions that exited 0 and left their output in place: %s" % (added, want), "witness": W})
        out["sample"] = {"scenario": scn["name"], "crash_at": k, "site": site, "crashed": crashed, "rows_after": pr.rows() if not isinstance(pr.rows(), str) else None}
    return out


def count_case(scn):
    cli.warm()
    with common.Scratch("cv06n") as sc:
        pr, extra = build(sc.root, scn)
        argv = command(scn, pr, extra, sc.root)
        cpath = os.path.join(sc.root, "count.json")
        r = pr.cond(argv, timeout=120, count=cpath, extra_files=[shutil.__file__] if scn["cmd"] in ("restore", "gc", "clean") else [])
        wait_orphans(pr)
        if not os.path.exists(cpath):
            return {"error": cli.brief(r)}
        c = json.load(open(cpath))
        c["exit"] = r.code
        return c


def main(tier, n=None):
    rep = common.Report(PROP, tier, "fault_enumeration", RULE)
    rep.assumptions = ["process death only (kernel-buffered writes survive; power loss is out of scope)", "SQLite's own atomic commit is trusted", "`clean` completing normally removes recorded versions together with their index (that is its purpose); only a clean that is killed half-way is judged",
                       "os._exit(137) from a sys.monitoring LINE callback = the on-disk effect of SIGKILL at that bytecode boundary; real SIGKILLs at random delays cover death inside C calls"]
    scns = scenarios()
    cli.warm()
    counts = common.parallel_map(count_case, scns, timeout=300)
    cases = []
    total_events = 0
    allsites = set()
    seen_global = set()
    for scn, (kind, c) in zip(scns, counts):
        if kind != "ok" or "error" in c:
            rep.inconc("line counting failed for " + scn["name"], str(c)[-400:])
            continue
        total_events += c["n"]
        cases.append((scn, None, 0))
        if scn.get("leftover_clock"):
            cases += [(scn, None, i) for i in range(1, 4)]
            ks = sorted({kk for site, occ in c["sites"].items() if site.startswith(("execution/ops/run_task_executable.py", "execution/version_index.py", "task_types/run.py")) for kk in (occ[:2] + occ[-1:])})
            cases += [(scn, kk, 0) for kk in (ks if tier == "thorough" else ks[::3])]
            continue
        if scn.get("complete_only") and tier == "quick":
            # variants of the project's git state: what matters is the row the complete run records
            continue
        if scn.get("prefork"):
            # unrelated children matter for the crash-free outcome (who gets recorded), not per crash point
            cases += [(scn, None, i) for i in range(1, 8 if tier == "quick" else 60)]
            continue
        seen = set()
        for site, occ in c["sites"].items():
            allsites.add(site)
            if tier == "thorough":
                take = occ
            elif site.startswith(CRIT):
                take = occ if len(occ) <= 4 else occ[:3] + occ[-1:]
            else:
                take = occ[:1] if (site, scn["cmd"]) not in seen_global else []
                seen_global.add((site, scn["cmd"]))
            for i, kk in enumerate(take):
                if kk not in seen:
                    seen.add(kk)
                    cases.append((scn, kk, i))
    rng = common.rng_for("c06", common.base_seed())
    nkill = 120 if tier == "quick" else 2500
    for i in range(nkill):
        scn = rng.choice(scns)
        cases.append((scn, "kill:%.4f" % rng.uniform(0.0, 0.35), i))
    if n:
        rng.shuffle(cases)
        cases = cases[:n]
    rep.extra["line_events_in_uncrashed_runs"] = total_events
    rep.extra["distinct_sites"] = len(allsites)
    by = {}
    for scn, k, nth in cases:
        by.setdefault(scn["name"], (scn, []))[1].append((k, nth))
    groups = []
    for name, (scn, ks) in by.items():
        rng.shuffle(ks)
        size = max(8, min(40, len(ks) // 16 + 1))
        for i in range(0, len(ks), size):
            groups.append((scn, ks[i:i + size]))
    res = common.parallel_map(crash_group, groups, timeout=1800)
    rep.merge_pool(res, groups)
    rep.evaluations = rep.reach.get("c06_cases", 0)
    rep.distinct = set(rep.extra.get("case_sigs", ()))
    # "recorded only if that execution exited 0" under adversarial exit delivery: failing / killed
    # experiments, children the cond process did not start, every kernel scheduling strategy (E2)
    from .. import sched
    from . import _sched_common as S
    S.warm()
    ne2 = 400 if tier == "quick" else 20000
    if n:
        ne2 = max(10, n // 10)
    e2 = sched.gen_cases(common.base_seed() + 6, ne2, "faults", None, 7)
    r6 = common.rng_for("c06e2", common.base_seed())
    for c in e2:
        for inv in c["history"]:
            inv["stop_early"] = False
            if r6.random() < 0.6:
                inv["unrelated"] = [dict(r6.choice([{"exit": 0}, {"exit": 0}, {"exit": 3}])) for _ in range(r6.randint(1, 3))]
    e2c = [(c, ["C06"]) for c in e2]
    res2 = common.parallel_map(sched.eval_case, e2c, timeout=240)
    rep.merge_pool(res2, e2c)
    return rep.finish(required_reach=["c06_uncrashed_runs_with_vanishing_output_directories", "c06_crashes", "c06_rows_audited", "c06_real_sigkills", "c06_complete_run_checks", "c06_commit_flag_checks", "c06_e2_rows_checked"])


def replay(path):
    with open(path) as f:
        v = json.load(f)
    w = v["witness"]
    out = crash_group((w["scenario"], [(w["crash_at"], 0)]))
    for x in out["violations"]:
        print(x["msg"])
        print("VIOLATION property=%s replay=%s" % (PROP, path))
    return 1 if out["violations"] else 0
