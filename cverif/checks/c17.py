"""C17 - commands behave the same from any directory inside the project (metamorphic: the run
from the project root is the reference; same restored project state, same clock script)."""
import json
import os
import re
import shutil

from .. import common, cli, gen, realrun, statecheck

PROP = "C17"
RULE = ("subcommands x flag combinations {run, run --check, run --again -j, where [-p] [-f], archive [task] [-l] -o abs, restore abs, gc [-n] [-v], clean -f} x working directories "
        "{root, package dir, nested package, directory without COND, cond-out, inside a task output, sibling package} x project states (fresh, with failed leftovers, several versions); "
        "non-trivial = command touches cond-out or prints a location; distinct = (state, command, cwd)")

CWDS = ["", "a", "a/b", "docs/deep", "cond-out", "cond-out/a/c1.task", "c-d", "cond", "cond-out/a/ghost.task.77", "@outside-link-to-a", "vendor/lib"]
GIT_COMMANDS = [["run", "//:g", "--this-commit"], ["run", "//a/b:e3", "--at-least", "HEAD"], ["run", "//:dd", "--at-least", "HEAD~1"], ["where", "//a:e2"], ["run", "//:g"]]
T0 = 1_800_000_000

COMMANDS = [
    ["run", "//:g"], ["run", "//:g", "--check"], ["run", "//a/b:e3", "--again", "-j", "2"], ["run", "//:dd", "--stop-early"], ["run", "//:nope"],
    ["where", "//a:e2"], ["where", "//a:e2", "-p"], ["where", "//a:c1", "-f"], ["where", "//a:c1", "-f", "-p"], ["where", "//c-d:e4"], ["where", "//:k", "-p"],
    ["archive", "-o", "@ARCH"], ["archive", "//:g", "-l", "-o", "@ARCH"], ["archive", "//a/b:e3", "-o", "@ARCHDIR"], ["archive"],
    ["restore", "@KEPT"],
    ["gc"], ["gc", "-n"], ["gc", "-v"], ["gc", "-n", "-v"],
    ["clean", "-f"],
    # without --force: the answer comes from standard input (y / n / end of input)
    ["clean", "@STDIN:y\n"], ["clean", "@STDIN:n\n"], ["clean", "@STDIN:"], ["clean", "@STDIN:Y \n"],
]


def norm_paths(text, root, cwd_abs):
    """absolute form of every path-looking token that the command printed"""
    locs = []
    for line in text.splitlines():
        for pat in (r"^Would delete (.+)$", r"^Deleting (.+)$", r"Archive saved as (.+)$"):
            m = re.search(pat, line)
            if m:
                p = m.group(1).strip()
                p = re.sub(r"cond-archive\+[0-9+-]+\.tar\.gz", "cond-archive+TS.tar.gz", p)  # default name carries the wall clock
                locs.append(os.path.normpath(p if os.path.isabs(p) else os.path.join(cwd_abs, p)))
    return sorted(locs)


def eval_case(case):
    cli.warm()
    rng = common.rng_for("c17case", case["seed"])
    out = {"sig": common.short_hash(case), "nontrivial": True, "reach": {}, "violations": [], "inconclusive": [], "sets": {}}
    R = out["reach"]

    def bump(k, n=1):
        R[k] = R.get(k, 0) + n

    with common.Scratch("cv17") as sc:
        pr = statecheck.std_project(sc.root, disable_git=not case.get("git"))
        os.makedirs(os.path.join(pr.root, "docs", "deep"), exist_ok=True)
        os.makedirs(os.path.join(pr.root, "vendor", "lib"), exist_ok=True)
        os.makedirs(os.path.join(pr.root, "cond"), exist_ok=True)  # a sibling of cond-out whose name is a prefix of it
        # project-relative and relative include() forms in package COND files
        open(os.path.join(pr.root, "common.cond"), "w").write("SHARED = 1\n")
        open(os.path.join(pr.root, "a", "local.cond"), "w").write("LOCAL = 2\n")
        for rel, line in (("a/COND", "include('//common.cond')\ninclude('local.cond')\n"), ("a/b/COND", "include('//common.cond')\ninclude('../local.cond')\n")):
            pth = os.path.join(pr.root, rel)
            body = open(pth).read()
            open(pth, "w").write(line + body)
        if case.get("git"):
            open(os.path.join(pr.root, ".gitignore"), "w").write("cond-out\nvendor\n")
            open(os.path.join(pr.root, "src.txt"), "w").write("0\n")
            realrun.git(pr.root, "init", "-q", "-b", "main")
            realrun.git(pr.root, "add", "-A")
            realrun.git(pr.root, "commit", "-q", "-m", "c0")
            realrun.git(pr.root, "commit", "-q", "--allow-empty", "-m", "c1")
            # a vendored checkout with its own repository below the project root
            vl = os.path.join(pr.root, "vendor", "lib")
            open(os.path.join(vl, "README"), "w").write("vendored\n")
            realrun.git(vl, "init", "-q", "-b", "main")
            realrun.git(vl, "add", "-A")
            realrun.git(vl, "commit", "-q", "-m", "vendored c0")
        hist = statecheck.run_history(pr, rng, case["nruns"]) if case["nruns"] else []
        # c1's output must exist so that "inside a task output" is a valid cwd
        pr.cond(["run", "//a:c1"], timeout=60)
        os.makedirs(os.path.join(pr.root, "cond-out", "a", "c1.task"), exist_ok=True)
        if case["leftovers"] or "cond-out/a/ghost.task.77" in case["cwds"]:
            os.makedirs(os.path.join(pr.root, "cond-out", "a", "ghost.task.77", "x"), exist_ok=True)
            os.makedirs(os.path.join(pr.root, "cond-out", "zz", "e1.task.5"), exist_ok=True)
        kept = os.path.join(sc.root, "kept.tar.gz")
        cmd = list(case["cmd"])
        if cmd[0] == "restore":
            a = pr.cond(["archive", "-o", kept], timeout=60)
            if a.code != 0:
                out["inconclusive"].append({"why": "no archive for the restore scenario", "detail": cli.brief(a)})
                return out
            pr.cond(["clean", "-f"], timeout=60)
            os.makedirs(os.path.join(pr.root, "cond-out", "a", "c1.task"), exist_ok=True)
        pristine = os.path.join(sc.root, "pristine")
        shutil.copytree(pr.root, pristine, symlinks=True)
        ref = None
        cwds = list(case["cwds"])
        if case.get("outer_config"):
            cwds = cwds[:1] + [cwds[0]] + cwds[1:]   # the reference directory again, now with the outer project present
        for cwd in cwds:
            if ref is not None and case.get("outer_config") and not os.path.exists(os.path.join(sc.root, "cond_config.toml")):
                # from here on the project lives inside another Conductor project: the NEAREST cond_config.toml
                # is the root.  The reference run was made before the outer project existed.
                open(os.path.join(sc.root, "cond_config.toml"), "w").write("disable_git = true\n")
                open(os.path.join(sc.root, "COND"), "w").write("run_command(name='outer', run='true')\nrun_command(name='g', run='exit 3')\n")
                bump("c17_nested_in_outer_project")
            shutil.rmtree(pr.root)
            shutil.copytree(pristine, pr.root, symlinks=True)
            if case.get("git"):
                realrun.git(pr.root, "update-index", "-q", "--refresh", check=False)
                realrun.git(os.path.join(pr.root, "vendor", "lib"), "update-index", "-q", "--refresh", check=False)
            archdir = os.path.join(sc.root, "adir")
            shutil.rmtree(archdir, ignore_errors=True)
            os.makedirs(archdir)
            arch = os.path.join(archdir, "explicit.tar.gz")
            stdin_text = None
            for x in cmd:
                if x.startswith("@STDIN:"):
                    stdin_text = x[len("@STDIN:"):]
            argv = [{"@ARCH": arch, "@ARCHDIR": archdir, "@KEPT": kept}.get(x, x) for x in cmd if not x.startswith("@STDIN:")]
            cwd_abs = os.path.join(pr.root, cwd)
            if cwd == "@outside-link-to-a":
                # a project sub-directory entered through a symbolic link that lives outside the project
                cwd_abs = os.path.join(sc.root, "shortcut-to-a")
                if not os.path.islink(cwd_abs):
                    os.symlink(os.path.join(pr.root, "a"), cwd_abs)
            if not os.path.isdir(cwd_abs):
                bump("c17_cwd_not_present_in_this_state")  # e.g. a task output directory after `clean`
                continue
            pr.events(new_only=True)
            r = cli.run_cli(argv, cwd_abs, pr.scratch, timeout=120, clock=[T0], stdin_text=stdin_text)
            evs = pr.events(new_only=True)
            snap = statecheck.full_snapshot(pr.root) if os.path.isdir(pr.root) else {}
            snap = {k: v for k, v in snap.items() if "version_index.sqlite" not in k and not (k.startswith("cond-out/cond-archive+")) and not (k == ".git" or k.startswith(".git/") or "/.git/" in k or k.endswith("/.git"))}
            rows = pr.rows()
            default_archives = len([k for k in os.listdir(os.path.join(pr.root, "cond-out")) if k.startswith("cond-archive+")]) if os.path.isdir(os.path.join(pr.root, "cond-out")) else 0
            obs = {"exit": r.code, "snapshot": snap, "rows": rows, "locations": norm_paths(r.out, pr.root, cwd_abs), "started": sorted(e["task"] for e in evs if e["kind"] == "start"),
                   "where": r.out.strip() if cmd[0] == "where" else None, "archives_in_dir": sorted(os.listdir(archdir)) if "@ARCHDIR" not in cmd else len(os.listdir(archdir)),
                   "default_archives": default_archives, "traceback": "Traceback" in r.err,
                   "task_cwds": sorted({(e["task"], e["cwd"]) for e in evs if e["kind"] == "start"})}
            bump("c17_invocations")
            W = {"engine": "E4", "case": case, "cwd": cwd, "argv": argv, "result": cli.brief(r, 1500), "history": hist}
            if ref is None:
                ref = (cwd, obs, cli.brief(r, 800))
                if r["timed_out"]:
                    out["inconclusive"].append({"why": "reference run timed out", "detail": cli.brief(r)})
                    break
                continue
            bump("c17_comparisons")
            rcwd, robs, rres = ref
            W["reference"] = {"cwd": rcwd, "result": rres}
            if obs["traceback"] and not robs["traceback"]:
                key = "C17:traceback-from-subdirectory"
                if "relative_to" in r.err or "is not in the subpath" in r.err:
                    key = "C17:relative-path-rendering-crashes-outside-cwd"
                out["violations"].append({"key": key, "msg": "cond %s from %r: traceback (from %r: exit %s)\n%s" % (" ".join(cmd), cwd, rcwd, robs["exit"], r.err[-500:]), "witness": W})
                break
            for field, key in (("exit", "C17:exit-status-depends-on-cwd"), ("started", "C17:executed-tasks-depend-on-cwd"), ("task_cwds", "C17:task-working-directory-depends-on-cwd"),
                               ("rows", "C17:recorded-versions-depend-on-cwd"), ("snapshot", "C17:effects-on-project-depend-on-cwd"), ("where", "C17:reported-location-depends-on-cwd"),
                               ("locations", "C17:reported-location-depends-on-cwd"), ("archives_in_dir", "C17:archive-location-depends-on-cwd"), ("default_archives", "C17:archive-location-depends-on-cwd")):
                if obs[field] != robs[field]:
                    a, b = obs[field], robs[field]
                    if isinstance(a, dict):
                        ks = sorted(k for k in set(a) | set(b) if a.get(k) != b.get(k))[:6]
                        a, b = {k: a.get(k) for k in ks}, {k: b.get(k) for k in ks}
                    out["violations"].append({"key": key, "msg": "cond %s: %s from %r = %s, from %r = %s" % (" ".join(cmd), field, cwd, str(a)[:400], rcwd, str(b)[:400]), "witness": W})
                    break
            if out["violations"]:
                break
        out["sets"]["cwds"] = list(case["cwds"])
        out["sets"]["commands"] = [" ".join(case["cmd"])]
        out["sample"] = {"case": case, "reference": None if ref is None else {"cwd": ref[0], "exit": ref[1]["exit"], "locations": ref[1]["locations"][:3], "where": ref[1]["where"]}}
    return out


def main(tier, n=None):
    rep = common.Report(PROP, tier, "exploration", RULE)
    rep.assumptions = ["identifiers on the command line are fully qualified (the CLI has no cwd-relative identifier form)", "the same frozen clock script is given to every variant so that new version ids coincide",
                       "printed relative paths are resolved against the invoking directory before comparison"]
    rng = common.rng_for("c17", common.base_seed())
    cases = []
    reps = 4 if tier == "quick" else 30
    for rep_i in range(reps):
        for cmd in COMMANDS:
            if tier == "quick":
                cw = [""] + rng.sample(CWDS[1:], 4)
            else:
                cw = list(CWDS)
            cases.append({"seed": rng.randrange(1 << 30), "cmd": cmd, "cwds": cw, "nruns": rng.choice([0, 1, 2, 3]), "leftovers": rng.random() < 0.6, "outer_config": rng.random() < 0.5})
        for cmd in GIT_COMMANDS:
            cw = [""] + (rng.sample(CWDS[1:-1], 3) + ["vendor/lib"] if tier == "quick" else CWDS[1:])
            cases.append({"seed": rng.randrange(1 << 30), "cmd": cmd, "cwds": cw, "nruns": rng.choice([1, 2]), "leftovers": False, "git": True, "outer_config": rng.random() < 0.3})
    if n:
        cases = cases[:n]
    cli.warm()
    res = common.parallel_map(eval_case, cases, timeout=900)
    rep.merge_pool(res, cases)
    rep.distinct = {(c, w) for c in rep.extra.get("commands", ()) for w in rep.extra.get("cwds", ())} if False else rep.distinct
    return rep.finish(required_reach=["c17_invocations", "c17_comparisons"])


def replay(path):
    with open(path) as f:
        v = json.load(f)
    out = eval_case(v["witness"]["case"])
    for x in out["violations"]:
        print(x["msg"])
        print("VIOLATION property=%s replay=%s" % (PROP, path))
    return 1 if out["violations"] else 0
