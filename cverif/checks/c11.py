"""C11 - archive then restore reproduces exactly the selected versions (E4: real histories, real
tar; oracle: selection model over the generator's DAG + independent reads of the index + Merkle
hashes of every version directory)."""
import json
import os
import shutil

from .. import common, cli, gen, realrun, statecheck

PROP = "C11"
RULE = ("projects with packages nested <=3, 1-4 versions per experiment produced by real run histories (failures, --again), run_command/group/combine between experiments, diamond closures in "
        "both listing orders, output trees with nested/empty directories, binary and 0-byte files, exec bits, unicode names, relative/dangling symlinks, git commit hashes and dirty flags x "
        "archive [task] [--latest] [-o file|dir|default] x restore into the cleaned project or a fresh clone; non-trivial = >=2 rows selected; distinct = hash(case)")


def select_model(tb, rows, task, latest):
    sel = rows
    if task is not None:
        clo = gen.closure(tb, task)
        keep = {x for x in clo if tb[x]["kind"] == "run_experiment"}
        sel = [r for r in rows if r[0] in keep]
    if latest:
        newest = {}
        for r in sel:
            if r[0] not in newest or r[1] > newest[r[0]][1]:
                newest[r[0]] = r
        sel = list(newest.values())
    return sorted(sel)


def eval_case(case):
    cli.warm()
    rng = common.rng_for("c11case", case["seed"])
    out = {"sig": common.short_hash(case), "nontrivial": False, "reach": {}, "violations": [], "inconclusive": [], "sets": {}}
    R = out["reach"]

    def bump(k, n=1):
        R[k] = R.get(k, 0) + n

    with common.Scratch("cv11") as sc:
        pr = statecheck.std_project(sc.root, rich_outputs=True, disable_git=not case["git"], hostile=case.get("hostile"), extend_seed=case.get("extend"))
        if case["dangling"]:
            pr.scripts["//a:e2"]["steps"].insert(0, ["symlink", "dangling", "no/such/target"])
            pr.write_scn()
        if case["git"]:
            open(os.path.join(pr.root, ".gitignore"), "w").write("cond-out\n")
            open(os.path.join(pr.root, "src.txt"), "w").write("0\n")
            realrun.git(pr.root, "init", "-q", "-b", "main")
            realrun.git(pr.root, "add", "-A")
            realrun.git(pr.root, "commit", "-q", "-m", "c0")
        hist = []
        pr.cond(["run", rng.choice(["//:e1", "//a:e2", "//:d1"])], timeout=120)  # at least one recorded version
        for i in range(case["nruns"]):
            if case["git"] and rng.random() < 0.5:
                if rng.random() < 0.5:
                    open(os.path.join(pr.root, "src.txt"), "a").write("edit %d\n" % i)
                else:
                    realrun.git(pr.root, "commit", "-q", "--allow-empty", "-a", "-m", "c%d" % (i + 1))
            hist += statecheck.run_history(pr, rng, 1)
        if case["git"] and case.get("branch_switch"):
            # HEAD moves to a sibling branch: recorded versions sit on commits that are not ancestors of HEAD
            # (so `cond where` finds nothing) - they are still recorded versions and must be archived
            realrun.git(pr.root, "checkout", "-q", "--", ".", check=False)
            first = realrun.git(pr.root, "rev-list", "--max-parents=0", "HEAD").splitlines()[0]
            realrun.git(pr.root, "checkout", "-q", "-b", "sibling", first)
            realrun.git(pr.root, "commit", "-q", "--allow-empty", "-m", "on sibling")
        if case.get("foreign"):
            # versions from another clone whose clock was elsewhere: timestamps may coincide ACROSS tasks
            # (an old version of one task with the newest version of another)
            T = 2_000_000_000  # above every real-time version id, so these are the newest ones
            fr = statecheck.std_project(sc.sub("foreign"), name="f", rich_outputs=False)
            fr.cond(["run", "//:e1"], timeout=60, clock=[T])            # foreign: e1 @ T
            fr.cond(["run", "//a:e2"], timeout=60, clock=[T])           #          e2 @ T+1 (its newest)
            fa = os.path.join(sc.root, "foreign.tar.gz")
            fr.cond(["archive", "-o", fa], timeout=60)
            pr.cond(["run", "//:e1", "--again"], timeout=60, clock=[T + 1])   # own: e1 @ T+1 (will be an OLD version of e1)
            pr.cond(["run", "//:e1", "--again"], timeout=60, clock=[T + 5])   #      e1 @ T+5
            pr.cond(["restore", fa], timeout=60)                          # now e1 {T, T+1, T+5}, e2 {T+1, ...}
        rows = pr.rows()
        if isinstance(rows, str) or not rows:
            out["inconclusive"].append({"why": "history recorded no version", "detail": str(rows)[:200]})
            return out
        hashes = {(r[0], r[1]): realrun.tree_hash(pr.out_dir(r[0], r[1])) for r in rows}
        task = case["task"]
        want = select_model(pr.tb, rows, task, case["latest"])
        if len(want) >= 2:
            out["nontrivial"] = True
        if case.get("stale_archive_index"):
            # an earlier `cond archive` that was SIGKILLed while tar was running leaves its scratch
            # index (cond-out/version_index_archive.sqlite) behind
            import signal as _sig
            stale = os.path.join(pr.root, "cond-out", "version_index_archive.sqlite")
            st = {"killed": False}

            def killer(pid):
                if st["killed"]:
                    return
                try:
                    kids = open("/proc/%d/task/%d/children" % (pid, pid)).read().split()
                except OSError:
                    kids = []
                if kids and os.path.exists(stale) and os.path.getsize(stale) > 0:
                    st["killed"] = True
                    os.kill(pid, _sig.SIGKILL)

            pr.cond(["archive", "-o", os.path.join(sc.root, "killed.tar.gz")], timeout=60, poll=killer)
            if not os.path.exists(stale):
                # tar was faster than the poll loop: reproduce the leftover directly (same content)
                import shutil as _sh
                _sh.copy(os.path.join(pr.root, "cond-out", "version_index.sqlite"), stale)
            out["reach"]["c11_stale_archive_index_cases"] = 1
        src_before = statecheck.full_snapshot(os.path.join(pr.root, "cond-out"))
        # ---- archive
        odir = os.path.join(sc.root, "archives")
        os.makedirs(odir, exist_ok=True)
        argv = ["archive"] + ([task] if task else []) + (["--latest"] if case["latest"] else [])
        if case["out"] == "file":
            apath = os.path.join(odir, "my-archive.tar.gz")
            argv += ["-o", apath]
        elif case["out"] == "relcolon":
            # a relative archive name with a time in it ("results 12:30.tar.gz"): tar takes host:file for a remote archive
            apath = os.path.join(pr.root, "results 12:30.tar.gz")
            argv += ["-o", "results 12:30.tar.gz"]
        elif case["out"] == "dir":
            argv += ["-o", odir]
            apath = None
        else:
            apath = None
        r = pr.cond(argv, timeout=120)
        W = {"engine": "E4", "case": case, "history": hist, "rows": rows, "selected_model": want, "archive_argv": argv, "archive_result": cli.brief(r, 1200)}
        bump("c11_archives")
        if "Traceback" in r.err:
            key = "C11:archive-crashes-on-shared-dependency" if "IntegrityError" in r.err else "C11:archive-traceback"
            if case.get("stale_archive_index") and "IntegrityError" in r.err:
                key = "C11:stale-archive-index-of-a-killed-archive-reused"
            out["violations"].append({"key": key, "msg": "cond %s: %s" % (" ".join(argv), r.err[-600:]), "witness": W})
            return out
        if not want:
            if r.code == 0:
                out["violations"].append({"key": "C11:archive-of-nothing-succeeds", "msg": "cond %s exited 0 although no recorded version is selected" % " ".join(argv), "witness": W})
            bump("c11_empty_selection_checks")
            return out
        if r.code != 0:
            out["violations"].append({"key": "C11:archive-failed", "msg": "cond %s exit %s: %s" % (" ".join(argv), r.code, r.err[-400:]), "witness": W})
            return out
        if apath is None:
            where = odir if case["out"] == "dir" else os.path.join(pr.root, "cond-out")
            cands = [f for f in os.listdir(where) if f.startswith("cond-archive+") and f.endswith(".tar.gz")]
            if len(cands) != 1:
                out["violations"].append({"key": "C11:archive-file-not-found", "msg": "expected one cond-archive+*.tar.gz in %s, found %s" % (where, cands), "witness": W})
                return out
            apath = os.path.join(where, cands[0])
        if not os.path.isfile(apath):
            out["violations"].append({"key": "C11:archive-file-not-found", "msg": "no archive at %s" % apath, "witness": W})
            return out
        # source unchanged
        src_after = statecheck.full_snapshot(os.path.join(pr.root, "cond-out"))
        rel_a = os.path.relpath(apath, os.path.join(pr.root, "cond-out"))
        diff = sorted(k for k in set(src_before) | set(src_after) if src_before.get(k) != src_after.get(k) and k != rel_a and not k.startswith("version_index.sqlite") and k != "version_index_archive.sqlite")
        bump("c11_source_unchanged_checks")
        if diff or pr.rows() != rows:
            out["violations"].append({"key": "C11:archive-changed-source-project", "msg": "archiving changed the source project: %s; rows equal: %s" % (diff[:6], pr.rows() == rows), "witness": W})
            return out
        keep = os.path.join(sc.root, "kept.tar.gz")
        shutil.copy(apath, keep)
        if case["out"] == "relcolon":
            os.unlink(apath)   # (it sits in the project root, not in cond-out; keep the project as it was)
        # ---- restore
        if case["into"] == "clean":
            c = pr.cond(["clean", "-f"], timeout=60)
            co = os.path.join(pr.root, "cond-out")
            if os.path.islink(co) and os.listdir(os.path.realpath(co)):
                # observation outside C11: `cond clean` silently removes nothing when cond-out is a symbolic
                # link (rmtree refuses links, errors are ignored); empty the storage by hand so that the
                # project really "lacks those versions"
                out["reach"]["c11_clean_was_a_noop_on_symlinked_cond_out"] = 1
                real = os.path.realpath(co)
                for x in os.listdir(real):
                    px = os.path.join(real, x)
                    shutil.rmtree(px) if os.path.isdir(px) and not os.path.islink(px) else os.unlink(px)
            dest = pr
        else:
            dest = statecheck.std_project(sc.sub("clone"), name="q", extend_seed=case.get("extend"))
        if case.get("killed_restore_first"):
            # a first restore is SIGKILLed after it has placed version directories but before it commits;
            # the retry may be refused (leftovers) - then `cond gc` clears them and the next retry must be exact
            import signal as _sig
            kst = {"done": False}

            def killer(pid):
                if kst["done"]:
                    return
                for dp, dns, fns in os.walk(os.path.join(dest.root, "cond-out")):
                    if realrun.staging_name() in dp.split(os.sep):
                        continue
                    if any(".task." in d0 for d0 in dns):
                        kst["done"] = True
                        try:
                            os.kill(pid, _sig.SIGKILL)
                        except OSError:
                            pass
                        return

            if case["seed"] % 2:
                dest.cond(["restore", keep], timeout=120, poll=killer)
            else:
                # the same, at an exact point: dies when it is about to place its 2nd (3rd, ...) version directory
                rk = dest.cond(["restore", keep], timeout=120, crash_on_audit={"events": ["shutil.copytree", "shutil.move", "os.rename"], "nth": 2 + (case["seed"] // 2) % 3})
                if rk.code == 137:
                    out["reach"]["c11_restore_killed_between_version_directories"] = 1
            out["reach"]["c11_killed_restore_first"] = 1
            r_retry = dest.cond(["restore", keep], timeout=120)
            if r_retry.code != 0:
                dest.cond(["gc"], timeout=60)
            elif sorted(dest.rows()) == want and all(realrun.tree_hash(dest.out_dir(rr[0], rr[1])) == hashes[(rr[0], rr[1])] for rr in want):
                pass
        keep_arg = keep
        if case["out"] == "relcolon":
            shutil.copy(keep, os.path.join(dest.root, "back 12:30.tar.gz"))
            keep_arg = "back 12:30.tar.gz"   # relative to the project root, where the command is started
        r2 = dest.cond(["restore", keep_arg], timeout=120)
        if case["out"] == "relcolon":
            os.unlink(os.path.join(dest.root, "back 12:30.tar.gz"))
        if case.get("killed_restore_first") and r2.code != 0 and sorted(dest.rows()) == want:
            r2 = cli.CliResult(r2, exit=0)  # the retry above had already completed the restore: this one is rightly refused
            r2["stderr"] = ""
        W["restore_result"] = cli.brief(r2, 1200)
        bump("c11_restores")
        if r2.code != 0 or "Traceback" in r2.err:
            key = "C11:restore-failed"
            if "Traceback" in r2.err and case["dangling"]:
                key = "C11:restore-crashes-on-dangling-symlink"
            out["violations"].append({"key": key, "msg": "cond restore exit %s: %s" % (r2.code, r2.err[-600:]), "witness": W})
            return out
        got = dest.rows()
        if sorted(got) != want:
            out["violations"].append({"key": "C11:restored-rows-differ-from-selection", "msg": "restored rows %s, selected %s" % (sorted(got), want), "witness": W})
            return out
        for rr in want:
            bump("c11_version_trees_compared")
            h = realrun.tree_hash(dest.out_dir(rr[0], rr[1]))
            if h != hashes[(rr[0], rr[1])]:
                a_snap = None
                key = "C11:restored-tree-differs"
                d = dest.out_dir(rr[0], rr[1])
                if h != "MISSING":
                    for name in ("rel-link", "dir-link", "dangling"):
                        if os.path.lexists(os.path.join(d, name)) and not os.path.islink(os.path.join(d, name)):
                            key = "C11:restore-turns-symlinks-into-copies"
                out["violations"].append({"key": key, "msg": "version %s@%s restored with tree hash %s, original %s (%s)" % (rr[0], rr[1], h, hashes[(rr[0], rr[1])], d), "witness": W})
                return out
        # nothing else was restored
        extra = []
        for dp, dns, fns in os.walk(os.path.join(dest.root, "cond-out")):
            for dn in list(dns):
                if ".task." in dn:
                    full = os.path.join(dp, dn)
                    if not any(os.path.normpath(dest.out_dir(rr[0], rr[1])) == os.path.normpath(full) for rr in want):
                        extra.append(os.path.relpath(full, dest.root))
                    dns.remove(dn)
        if extra:
            out["violations"].append({"key": "C11:restored-more-than-selected", "msg": "restore created %s which are not selected versions" % extra[:5], "witness": W})
            return out
        out["sample"] = {"case": case, "rows": rows[:6], "selected": want[:6], "archive_argv": argv}
    return out


def big_closure_case(arg):
    """`cond archive <task>` over a closure of several hundred experiments (rows and directories are
    created directly; the index itself is created by Conductor)"""
    ntasks, latest = arg
    cli.warm()
    import sqlite3
    out = {"sig": "big-closure-%d-%s" % (ntasks, latest), "nontrivial": True, "reach": {}, "violations": [], "inconclusive": [], "sets": {}}
    with common.Scratch("cv11b") as sc:
        tasks = [gen.mk_task(["", "a", "a/b"][i % 3], "x%d" % i, "run_experiment", run="true") for i in range(ntasks)]
        for t in tasks:
            t["raw_run"] = True
        tasks.append(gen.mk_task("", "all", "group", [t["id"] for t in tasks]))
        pr = realrun.Project(sc.root, tasks, {})
        pr.cond(["where", "-f", "//:all"], timeout=60)
        c = sqlite3.connect(os.path.join(pr.root, "cond-out", "version_index.sqlite"))
        rows = []
        for i, t in enumerate(tasks[:-1]):
            for v in range(1 + (i % 2)):
                ts = 1000 + 2 * i + v
                rows.append((t["id"], ts, None, 0))
                d = pr.out_dir(t["id"], ts)
                os.makedirs(d)
                open(os.path.join(d, "o"), "w").write(str(ts))
        c.executemany("INSERT INTO version_index (task_identifier, timestamp, git_commit_hash, has_uncommitted_changes) VALUES (?,?,?,?)", rows)
        c.commit()
        c.close()
        want = select_model(pr.tb, sorted([list(r) for r in rows]), "//:all", latest)
        ap = os.path.join(sc.root, "big.tar.gz")
        r = pr.cond(["archive", "//:all", "-o", ap] + (["--latest"] if latest else []), timeout=300)
        W = {"engine": "E4", "ntasks": ntasks, "latest": latest, "archive_result": cli.brief(r, 800)}
        out["reach"]["c11_big_closure_archives"] = 1
        if r.code != 0:
            out["violations"].append({"key": "C11:archive-failed", "msg": "cond archive //:all over %d experiments failed: %s" % (ntasks, r.err[-300:]), "witness": W})
            return out
        dest = realrun.Project(sc.sub("clone"), [gen.Task(t) for t in gen.dump(tasks)], {}, name="q")
        r2 = dest.cond(["restore", ap], timeout=300)
        W["restore_result"] = cli.brief(r2, 800)
        got = dest.rows()
        if r2.code != 0 or sorted(got) != want:
            miss = [x for x in want if x not in got][:5]
            extra = [x for x in got if x not in want][:5]
            out["violations"].append({"key": "C11:restored-rows-differ-from-selection", "msg": "closure of %d experiments: restore exit %s; %d rows restored, %d selected; missing %s extra %s" % (ntasks, r2.code, len(got), len(want), miss, extra), "witness": W})
        out["reach"]["c11_version_trees_compared"] = len(want)
        out["sample"] = {"big_closure": ntasks, "rows": len(rows), "selected": len(want)}
    return out


def main(tier, n=None):
    rep = common.Report(PROP, tier, "exploration", RULE)
    rep.assumptions = ["don't-care: mtimes, ownership, group/other permission bits; where the archive file itself is stored", "compared per version: file type, owner rwx bits, symlink targets, bytes"]
    rng = common.rng_for("c11", common.base_seed())
    total = n or (200 if tier == "quick" else 3000)
    cases = []
    for i in range(total):
        cases.append({"seed": rng.randrange(1 << 30), "nruns": rng.randint(1, 4), "task": rng.choice([None, None, "//:g", "//:dd", "//a/b:e3", "//:k", "//c-d:e4", "//:d1", "//a:c1", "//c-d:solo", "//:plain"]),
                      "latest": rng.random() < 0.4, "out": rng.choice(["file", "file", "dir", "dir", "default", "default", "relcolon"]), "into": rng.choice(["clean", "clone"]), "git": rng.random() < 0.4,
                      "dangling": rng.random() < 0.25, "foreign": rng.random() < 0.35, "stale_archive_index": rng.random() < 0.3, "branch_switch": rng.random() < 0.4, "killed_restore_first": rng.random() < 0.25, "hostile": realrun.hostile_choice(rng)})
        if rng.random() < 0.5:
            # a random acyclic extension of the project; the archived task is then (mostly) the group over it
            cases[-1]["extend"] = rng.randrange(1 << 30)
            if rng.random() < 0.7:
                cases[-1]["task"] = "//:rx"
    cli.warm()
    res = common.parallel_map(eval_case, cases, timeout=900)
    rep.merge_pool(res, cases)
    big = [(600, False), (501, True)] if tier == "quick" else [(600, False), (501, True), (1001, False), (513, False), (1500, True)]
    res2 = common.parallel_map(big_closure_case, big, timeout=900)
    rep.merge_pool(res2, big)
    return rep.finish(required_reach=["c11_archives", "c11_restores", "c11_version_trees_compared", "c11_source_unchanged_checks", "c11_big_closure_archives"])


def replay(path):
    with open(path) as f:
        v = json.load(f)
    out = eval_case(v["witness"]["case"])
    for x in out["violations"]:
        print(x["msg"])
        print("VIOLATION property=%s replay=%s" % (PROP, path))
    return 1 if out["violations"] else 0
