"""Shared plumbing for all checks: paths, seeds, scratch space, a crash-tolerant fork pool,
the three-valued report/evidence writer and the known-findings classifier.

Nothing in here knows anything about Conductor's internals.
"""
import hashlib
import json
import os
import random
import select
import shutil
import signal
import sys
import tempfile
import time
import traceback

VERIF = os.path.dirname(os.path.dirname(os.path.abspath(__file__)))
REPO = os.environ.get("VERIF_REPO", "/repo")
SRC = os.path.join(REPO, "src")
VENV_BIN = "/venv/bin"
PY = os.path.join(VENV_BIN, "python")
GUARD = "CONDUCTOR_VERIF"
# where evidence/ and replays/ are written (redirected when checks are tried against scratch mutants)
OUT = os.environ.get("VERIF_OUT", VERIF)

EXIT_HELD = 0
EXIT_VIOLATION = 1
EXIT_INCONCLUSIVE = 2


def base_seed() -> int:
    try:
        return int(os.environ.get("VERIF_SEED", "20261001"))
    except ValueError:
        return 20261001


def rng_for(*parts) -> random.Random:
    h = hashlib.sha256(repr(parts).encode()).digest()
    return random.Random(int.from_bytes(h[:8], "big"))


def short_hash(obj) -> str:
    return hashlib.sha256(json.dumps(obj, sort_keys=True, default=repr).encode()).hexdigest()[:12]


def import_repo():
    """Make `import conductor` resolve to the working tree under test."""
    if SRC not in sys.path:
        sys.path.insert(0, SRC)
    deps = os.path.join(VERIF, ".deps")
    if os.path.isdir(deps) and deps not in sys.path:
        sys.path.append(deps)
    import conductor  # noqa

    got = os.path.realpath(os.path.dirname(conductor.__file__))
    want = os.path.realpath(os.path.join(SRC, "conductor"))
    if got != want:
        raise RuntimeError("conductor imported from %s, expected %s" % (got, want))


def clean_env(extra=None):
    """Environment for anything that runs Conductor: no COND_* leakage, fixed hash seed,
    /venv/bin first on PATH (so `python3` inside tasks has conductor.lib), repo sources first."""
    env = {k: v for k, v in os.environ.items() if not k.startswith("COND_")}
    env["PATH"] = VENV_BIN + ":" + env.get("PATH", "/usr/bin:/bin")
    env["PYTHONPATH"] = SRC
    env["PYTHONHASHSEED"] = "0"
    env["PYTHONDONTWRITEBYTECODE"] = "1"
    env[GUARD] = "1"
    env.setdefault("LANG", "C.UTF-8")
    env["PYTHONIOENCODING"] = "utf-8"
    env["GIT_CONFIG_GLOBAL"] = "/dev/null"
    env["GIT_CONFIG_SYSTEM"] = "/dev/null"
    env["GIT_AUTHOR_NAME"] = env["GIT_COMMITTER_NAME"] = "v"
    env["GIT_AUTHOR_EMAIL"] = env["GIT_COMMITTER_EMAIL"] = "v@example.com"
    if extra:
        env.update(extra)
    return env


class CpuBudgetExceeded(BaseException):
    pass


class cpu_budget:
    """Bounded progress measured in CPU time of this process (not wall clock, so machine load does not
    matter): code that normally needs a millisecond and is still running after `seconds` of CPU time does
    not terminate.  Raises CpuBudgetExceeded inside the monitored code."""

    def __init__(self, seconds):
        self.seconds = seconds

    def _fire(self, signum, frame):
        raise CpuBudgetExceeded("no result after %.1f s of CPU time" % self.seconds)

    def __enter__(self):
        self._old = signal.signal(signal.SIGPROF, self._fire)
        signal.setitimer(signal.ITIMER_PROF, self.seconds)
        return self

    def __exit__(self, *a):
        signal.setitimer(signal.ITIMER_PROF, 0)
        signal.signal(signal.SIGPROF, self._old)
        return False


class Scratch:
    """One scratch root per run, outside /repo and /verif, removed on exit."""

    def __init__(self, tag="cverif"):
        base = "/dev/shm" if os.path.isdir("/dev/shm") and os.access("/dev/shm", os.W_OK) else None
        self.root = tempfile.mkdtemp(prefix="%s-%d-" % (tag, os.getpid()), dir=base)
        self._n = 0

    def sub(self, name=None):
        self._n += 1
        p = os.path.join(self.root, name or ("d%05d" % self._n))
        os.makedirs(p, exist_ok=True)
        return p

    def cleanup(self):
        shutil.rmtree(self.root, ignore_errors=True)

    def __enter__(self):
        return self

    def __exit__(self, *a):
        self.cleanup()


def sweep_dead_scratch():
    """Workers that were killed by a watchdog cannot remove their scratch root; whoever finishes a check removes the
    roots (named <tag>-<pid>-...) whose owning process no longer exists."""
    base = "/dev/shm" if os.path.isdir("/dev/shm") else tempfile.gettempdir()
    try:
        names = os.listdir(base)
    except OSError:
        return
    for n in names:
        parts = n.split("-")
        if len(parts) >= 3 and parts[0].startswith("cv") and parts[1].isdigit() and not os.path.exists("/proc/" + parts[1]):
            shutil.rmtree(os.path.join(base, n), ignore_errors=True)


# --------------------------------------------------------------------------------------------
# fork pool: survives dying workers, per-case wall-clock watchdog => inconclusive
# --------------------------------------------------------------------------------------------

def run_forked(fn, arg, timeout):
    """Run fn(arg) in a forked child; returns ("ok", result) | ("died", info) | ("timeout", None).
    The result must be JSON serialisable."""
    r, w = os.pipe()
    sys.stdout.flush()
    sys.stderr.flush()
    pid = os.fork()
    if pid == 0:
        code = 0
        try:
            os.close(r)
            try:
                os.setpgid(0, 0)
            except OSError:
                pass
            try:
                res = fn(arg)
                data = json.dumps(["ok", res], default=repr).encode()
            except BaseException:  # noqa
                data = json.dumps(["exc", traceback.format_exc()]).encode()
            with os.fdopen(w, "wb") as f:
                f.write(data)
        except BaseException:  # noqa
            code = 70
        finally:
            os._exit(code)
    os.close(w)
    chunks = []
    deadline = time.monotonic() + timeout
    timed_out = False
    while True:
        left = deadline - time.monotonic()
        if left <= 0:
            timed_out = True
            break
        rl, _, _ = select.select([r], [], [], min(left, 1.0))
        if rl:
            b = os.read(r, 1 << 16)
            if not b:
                break
            chunks.append(b)
    os.close(r)
    if timed_out:
        try:
            os.killpg(pid, signal.SIGKILL)
        except OSError:
            try:
                os.kill(pid, signal.SIGKILL)
            except OSError:
                pass
        os.waitpid(pid, 0)
        return ("timeout", None)
    _, st = os.waitpid(pid, 0)
    data = b"".join(chunks)
    if not data:
        return ("died", "status %d" % st)
    try:
        kind, val = json.loads(data)
    except ValueError:
        return ("died", "garbled result, status %d" % st)
    if kind == "exc":
        return ("exc", val)
    return ("ok", val)


def _worker(fn, cases, idxs, out_path, timeout):
    with open(out_path, "w") as out:
        for i in idxs:
            t0 = time.monotonic()
            kind, val = run_forked(fn, cases[i], timeout)
            out.write(json.dumps({"i": i, "kind": kind, "val": val, "s": time.monotonic() - t0}, default=repr) + "\n")
            out.flush()


def parallel_map(fn, cases, nproc=None, timeout=120, progress=None, pilot=48):
    """Apply fn to every case, each inside its own forked process (clean interpreter state,
    a crash or hang is contained).  Returns list of (kind, value) in case order, kind in
    ok|exc|died|timeout|lost|skipped.

    A pilot batch runs first: when most of it hits the wall-clock watchdog (a change that makes the
    code under test hang everywhere) the remaining cases are skipped - the run is inconclusive either
    way and must not take hours to say so."""
    n = len(cases)
    if n == 0:
        return []
    if pilot and n > 3 * pilot:
        head = _parallel_map(fn, cases[:pilot], nproc, timeout)
        bad = sum(1 for k, _ in head if k in ("timeout", "died", "lost"))
        if bad * 2 > len(head):
            return head + [("skipped", None)] * (n - pilot)
        return head + _parallel_map(fn, cases[pilot:], nproc, timeout)
    return _parallel_map(fn, cases, nproc, timeout)


def _parallel_map(fn, cases, nproc=None, timeout=120):
    n = len(cases)
    if n == 0:
        return []
    nproc = max(1, min(nproc or (os.cpu_count() or 4), n))
    tmpd = tempfile.mkdtemp(prefix="cvpool-%d-" % os.getpid(), dir="/dev/shm" if os.path.isdir("/dev/shm") else None)
    pids = []
    sys.stdout.flush()
    sys.stderr.flush()
    for k in range(nproc):
        idxs = list(range(k, n, nproc))
        path = os.path.join(tmpd, "w%d.jsonl" % k)
        pid = os.fork()
        if pid == 0:
            try:
                _worker(fn, cases, idxs, path, timeout)
            except BaseException:  # noqa
                traceback.print_exc()
            finally:
                os._exit(0)
        pids.append(pid)
    for pid in pids:
        os.waitpid(pid, 0)
    results = [("lost", None)] * n
    for k in range(nproc):
        path = os.path.join(tmpd, "w%d.jsonl" % k)
        if os.path.exists(path):
            with open(path) as f:
                for line in f:
                    try:
                        d = json.loads(line)
                    except ValueError:
                        continue
                    results[d["i"]] = (d["kind"], d["val"])
    shutil.rmtree(tmpd, ignore_errors=True)
    return results


# --------------------------------------------------------------------------------------------
# report / evidence / known findings
# --------------------------------------------------------------------------------------------

def load_known():
    p = os.path.join(VERIF, "known_findings.json")
    if not os.path.exists(p):
        return {"findings": [], "fixed": []}
    with open(p) as f:
        return json.load(f)


class Report:
    """Collects oracle evaluations.  A violation carries a *mechanism key* (what kind of thing
    went wrong, never a seed or hash) which is looked up in known_findings.json."""

    def __init__(self, prop, tier, level, rule):
        self.prop = prop
        self.tier = tier
        self.level = level
        self.rule = rule
        self.t0 = time.monotonic()
        self.evaluations = 0
        self.distinct = set()
        self.reach = {}
        self.violations = []
        self.inconclusive = []
        self.samples = []
        self.extra = {}
        self.assumptions = []
        self.exhaustive = None

    def count(self, name, n=1):
        self.reach[name] = self.reach.get(name, 0) + n

    def case(self, signature, nontrivial=True):
        self.evaluations += 1
        if nontrivial:
            self.distinct.add(signature if isinstance(signature, str) else short_hash(signature))

    def sample(self, obj, limit=4):
        if len(self.samples) < limit:
            self.samples.append(obj)

    def violation(self, key, msg, witness):
        self.violations.append({"key": key, "msg": msg, "witness": witness})

    def inconc(self, why, detail=None):
        self.inconclusive.append({"why": why, "detail": detail})

    def merge_case_result(self, res):
        """res is the dict produced by a per-case function:
        {sig, nontrivial, reach:{}, violations:[{key,msg,witness}], inconclusive:[..], sample}"""
        self.case(res.get("sig", short_hash(res.get("sample"))), res.get("nontrivial", True))
        for k, v in res.get("reach", {}).items():
            self.count(k, v)
        for v in res.get("violations", []):
            self.violations.append(v)
        for i in res.get("inconclusive", []):
            self.inconclusive.append(i if isinstance(i, dict) else {"why": str(i)})
        for k, v in res.get("sets", {}).items():
            self.extra.setdefault(k, set()).update(v if isinstance(v, (list, set, tuple)) else [v])
        if "sample" in res:
            self.sample(res["sample"])

    def merge_pool(self, results, cases=None):
        for i, (kind, val) in enumerate(results):
            if kind == "ok":
                self.merge_case_result(val)
            elif kind == "exc":
                # the harness itself failed: never a verdict about Conductor
                self.inconc("harness exception", val[-1500:])
            else:
                self.inconc("case " + kind, None if cases is None else short_hash(cases[i]))

    def finish(self, required_reach=()):
        sweep_dead_scratch()
        known = load_known()
        open_keys = {}
        for f in known.get("findings", []):
            if f.get("property") == self.prop and f.get("status", "open") == "open":
                open_keys[f["key"]] = f
        os.makedirs(os.path.join(OUT, "replays"), exist_ok=True)
        os.makedirs(os.path.join(OUT, "evidence"), exist_ok=True)
        new = []
        seen_known = {}
        for v in self.violations:
            if v["key"] in open_keys:
                seen_known.setdefault(v["key"], v)
            else:
                new.append(v)
        for key, v in seen_known.items():
            print("KNOWN-FINDING: property=%s %s (%s)" % (self.prop, key, open_keys[key].get("what", v["msg"])))
        printed = set()
        replay_paths = []
        for v in new:
            if v["key"] in printed:
                continue
            printed.add(v["key"])
            path = os.path.join(OUT, "replays", "%s-%s-%s.json" % (self.prop, v["key"].replace(":", "_").replace("/", "_"), short_hash(v["witness"])))
            with open(path, "w") as f:
                json.dump(v, f, indent=1, default=repr)
            replay_paths.append(path)
            print("  " + v["msg"].replace("\n", "\n  ")[:3000])
            print("VIOLATION property=%s replay=%s" % (self.prop, path))
        allp = os.path.join(OUT, "replays", self.prop + "-all-violations.txt")
        if os.path.exists(allp):
            os.unlink(allp)
        if self.violations:
            with open(allp, "w") as f:
                for v in self.violations:
                    f.write("%s | %s\n" % (v["key"], v["msg"].split("\n")[0][:300]))
        missing = [r for r in required_reach if self.reach.get(r, 0) == 0]
        wall = time.monotonic() - self.t0
        cov = {
            "evaluations": self.evaluations,
            "distinct_nontrivial": len(self.distinct),
            "rule": self.rule,
            "samples": self.samples or ["(no sample recorded)"],
            "reach": self.reach,
            "inconclusive": len(self.inconclusive),
            "inconclusive_reasons": sorted({i["why"] for i in self.inconclusive})[:20],
            "inconclusive_examples": [str(i.get("detail"))[-700:] for i in self.inconclusive[:3]],
            "violations_new": len(new),
            "violation_keys_new": sorted({v["key"] for v in new}),
            "known_findings_seen": sorted(seen_known),
        }
        if self.exhaustive is not None:
            cov["exhaustive"] = self.exhaustive
        for k, v in self.extra.items():
            if isinstance(v, set):
                cov[k + "_distinct"] = len(v)
                cov[k + "_examples"] = sorted(map(str, v))[:12]
            else:
                cov[k] = v
        ev = {
            "property_id": self.prop,
            "tier": self.tier,
            "seed": base_seed(),
            "level": self.level,
            "coverage": cov,
            "assumptions": self.assumptions,
            "wall_s": round(wall, 2),
            "violations": len(new),
        }
        with open(os.path.join(OUT, "evidence", self.prop + ".json"), "w") as f:
            json.dump(ev, f, indent=1, default=repr)
        nin = len(self.inconclusive)
        print("%s tier=%s evaluations=%d distinct=%d reach=%s inconclusive=%d known=%d new_violations=%d wall=%.1fs" % (
            self.prop, self.tier, self.evaluations, len(self.distinct), json.dumps(self.reach, sort_keys=True), nin, len(seen_known), len(new), wall))
        if new:
            return EXIT_VIOLATION
        if missing or self.evaluations == 0 or (nin and nin > max(3, self.evaluations // 5)):
            why = ("zero reach for " + ",".join(missing)) if missing else ("%d inconclusive cases: %s" % (nin, cov["inconclusive_reasons"]))
            print("INCONCLUSIVE property=%s %s" % (self.prop, why))
            for i in self.inconclusive[:3]:
                print("  e.g. %s: %s" % (i.get("why"), str(i.get("detail"))[-800:]))
            return EXIT_INCONCLUSIVE
        return EXIT_HELD
