#!/bin/bash
# Offline setup: contracts library from the local wheelhouse into /verif/.deps (git-ignored).
cd "$(dirname "$0")"
mkdir -p .deps evidence replays
if [ ! -d .deps/icontract ]; then
  PIP_NO_INDEX=1 /venv/bin/pip install --quiet --no-index --find-links /opt/veriftools/wheels --target .deps icontract deal >/dev/null 2>&1 \
    || echo "setup: icontract/deal not installable; the built-in fallback contract decorator will be used"
fi
/venv/bin/python - <<'PY'
import sys
sys.path.insert(0, "/repo/src")
import conductor, sqlite3, subprocess
assert sys.version_info[:2] >= (3, 12), "sys.monitoring needs 3.12"
print("setup ok: conductor", conductor.__version__, "python", sys.version.split()[0])
PY
